#!/bin/bash
# Offline setup: make sure Hypothesis is importable in /venv; install atheris
# (optional engine, thorough tier of C16/C18) into /verif/.deps if possible.
set -u
HERE="$(cd "$(dirname "$0")" && pwd)"
export PIP_NO_INDEX=1
if ! /venv/bin/python -c "import hypothesis" 2>/dev/null; then
  /venv/bin/pip install --no-index --find-links /opt/veriftools/wheels hypothesis || exit 1
fi
if ! PYTHONPATH="$HERE/.deps" /venv/bin/python -c "import atheris" 2>/dev/null; then
  /venv/bin/pip install --no-index --find-links /opt/veriftools/wheels \
     --target "$HERE/.deps" atheris >/dev/null 2>&1 || echo "atheris not installed (optional)"
fi
/venv/bin/python -c "import hypothesis, numpy, sklearn; print('setup ok: hypothesis', hypothesis.__version__)"
