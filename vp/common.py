"""Shared helpers: violations, outcomes, time limits, comparisons, snapshots."""
import contextlib
import hashlib
import json
import math
import os
import signal
import traceback
import warnings

import numpy as np

CALL_TIME_LIMIT = float(os.environ.get("VERIF_CALL_LIMIT", "20"))
REPO = os.path.realpath(os.environ.get("VERIF_REPO", "/repo"))

# Tolerances (DESIGN section 3).
SAME = dict(rtol=1e-9, atol=1e-12)  # two runs of the same computation
DIFF = dict(rtol=1e-6, atol=1e-8)  # two different computations, same quantity


class HarnessError(Exception):
    """Something is wrong with the harness itself (exit code 2)."""


class CallTimeout(BaseException):
    """Raised by the interval timer; BaseException so that library code
    catching Exception cannot swallow it."""


class Violation:
    def __init__(self, component, kind, trigger, detail=""):
        self.component = str(component)
        self.kind = str(kind)
        self.trigger = str(trigger)
        self.detail = str(detail)[:1500]

    @property
    def signature(self):
        return f"{self.component}|{self.kind}|{self.trigger}"

    def to_json(self):
        return {
            "signature": self.signature,
            "component": self.component,
            "kind": self.kind,
            "trigger": self.trigger,
            "detail": self.detail,
        }

    def __repr__(self):
        return f"Violation({self.signature}: {self.detail[:200]})"


class Outcome:
    """Result of run_case."""

    def __init__(self, violations=None, nontrivial=False, labels=None,
                 info=None):
        self.violations = list(violations or [])
        self.nontrivial = bool(nontrivial)
        self.labels = list(labels or [])
        self.info = info or {}


@contextlib.contextmanager
def time_limit(seconds=None):
    """Bound on one call of the code under test. The bound is on the CPU time
    of this process (ITIMER_PROF), so that a heavily loaded machine cannot
    turn a slow but terminating call into a "non-termination"; the loops in
    question are busy loops. A wall-clock alarm at 15x the bound catches a
    call that blocks without consuming CPU."""
    seconds = CALL_TIME_LIMIT if seconds is None else seconds

    def handler(signum, frame):
        raise CallTimeout()

    old_prof = signal.signal(signal.SIGPROF, handler)
    old_alrm = signal.signal(signal.SIGALRM, handler)
    signal.setitimer(signal.ITIMER_PROF, seconds)
    signal.setitimer(signal.ITIMER_REAL, 15 * seconds)
    try:
        yield
    finally:
        signal.setitimer(signal.ITIMER_PROF, 0)
        signal.setitimer(signal.ITIMER_REAL, 0)
        signal.signal(signal.SIGPROF, old_prof)
        signal.signal(signal.SIGALRM, old_alrm)


@contextlib.contextmanager
def quiet():
    with warnings.catch_warnings():
        warnings.simplefilter("ignore")
        with np.errstate(all="ignore"):
            yield


def guarded(fn, *a, **k):
    """Run fn under the call time limit with warnings silenced.
    Returns (ok, value_or_exception)."""
    try:
        with quiet(), time_limit():
            return True, fn(*a, **k)
    except CallTimeout as e:
        return False, e
    except Exception as e:  # noqa
        return False, e


def exc_site(exc):
    """Innermost frame inside the skactiveml package of an exception:
    'file.py:function'."""
    tb = traceback.extract_tb(exc.__traceback__)
    site = None
    for fr in tb:
        fn = fr.filename.replace("\\", "/")
        if "/skactiveml/" in fn and "/tests/" not in fn:
            site = f"{os.path.basename(fn)}:{fr.name}"
    if site is None and tb:
        fr = tb[-1]
        site = f"{os.path.basename(fr.filename)}:{fr.name}"
    return site or "?"


def exc_violation(component, exc, trigger, where=""):
    if isinstance(exc, CallTimeout):
        return Violation(component, "non_termination", trigger,
                         f"{where}: call exceeded {CALL_TIME_LIMIT}s")
    return Violation(
        component,
        f"exception:{type(exc).__name__}@{exc_site(exc)}",
        trigger,
        f"{where}: {type(exc).__name__}: {exc}",
    )


# ---------------------------------------------------------------- JSON ----
def to_jsonable(o):
    if isinstance(o, dict):
        return {str(k): to_jsonable(v) for k, v in o.items()}
    if isinstance(o, (list, tuple)):
        return [to_jsonable(v) for v in o]
    if isinstance(o, np.ndarray):
        return to_jsonable(o.tolist())
    if isinstance(o, (np.integer,)):
        return int(o)
    if isinstance(o, (np.floating,)):
        return float(o)
    if isinstance(o, (np.bool_,)):
        return bool(o)
    if isinstance(o, (np.str_,)):
        return str(o)
    return o


def case_hash(case):
    s = json.dumps(to_jsonable(case), sort_keys=True, allow_nan=True,
                   default=str)
    return hashlib.sha1(s.encode()).hexdigest()[:16]


def dump_json(obj, path):
    tmp = f"{path}.tmp{os.getpid()}"
    with open(tmp, "w") as f:
        json.dump(to_jsonable(obj), f, indent=1, sort_keys=True,
                  allow_nan=True, default=str)
        f.write("\n")
    os.replace(tmp, path)


def load_json(path):
    with open(path) as f:
        return json.load(f)


# ---------------------------------------------------------- comparisons ----
def arr_equal_exact(a, b):
    a = np.asarray(a)
    b = np.asarray(b)
    if a.shape != b.shape:
        return False
    if a.dtype.kind in "fc" or b.dtype.kind in "fc":
        try:
            return bool(np.array_equal(a.astype(float), b.astype(float),
                                       equal_nan=True))
        except (TypeError, ValueError):
            pass
    if a.dtype == object or b.dtype == object:
        return all(_obj_eq(x, y) for x, y in zip(a.ravel().tolist(),
                                                 b.ravel().tolist()))
    return bool(np.array_equal(a, b))


def _obj_eq(x, y):
    if x is None or y is None:
        return x is None and y is None
    if isinstance(x, float) and isinstance(y, float):
        return (math.isnan(x) and math.isnan(y)) or x == y
    try:
        return bool(x == y)
    except Exception:
        return False


def arr_close(a, b, rtol, atol):
    a = np.asarray(a, dtype=float)
    b = np.asarray(b, dtype=float)
    if a.shape != b.shape:
        return False
    with np.errstate(all="ignore"):
        return bool(np.allclose(a, b, rtol=rtol, atol=atol, equal_nan=True))


def array_fingerprint(a):
    """Byte-wise fingerprint of an array-like argument (dtype, shape, data)."""
    if a is None:
        return None
    if isinstance(a, np.ndarray):
        if a.dtype == object:
            return ("obj", a.shape, repr(a.tolist()))
        return (str(a.dtype), a.shape, a.tobytes())
    return ("py", repr(a))


def snapshot(o, depth=0, rng_by_id=False):
    """Recursive structural snapshot of a Python object (by value) used for
    before/after and twin comparisons. RandomState objects are represented by
    their state."""
    if depth > 12:
        return "<deep>"
    if o is None or isinstance(o, (bool, int, str, bytes)):
        return o
    if isinstance(o, float):
        return "nan" if math.isnan(o) else o
    if isinstance(o, (np.integer,)):
        return int(o)
    if isinstance(o, (np.floating,)):
        f = float(o)
        return "nan" if math.isnan(f) else f
    if isinstance(o, np.bool_):
        return bool(o)
    if isinstance(o, np.ndarray):
        if o.dtype == object:
            return ("ndarray-obj", o.shape,
                    tuple(snapshot(x, depth + 1, rng_by_id) for x in o.ravel().tolist()))
        return ("ndarray", str(o.dtype), o.shape, o.tobytes())
    if isinstance(o, np.random.RandomState):
        if rng_by_id:
            return ("RandomState-id", id(o))
        st = o.get_state()
        return ("RandomState", st[0], st[1].tobytes(), st[2], st[3], st[4])
    if isinstance(o, np.random.Generator):
        return ("Generator", repr(o.bit_generator.state))
    if isinstance(o, dict):
        return ("dict", tuple(sorted(
            ((repr(k), snapshot(v, depth + 1, rng_by_id)) for k, v in o.items()),
            key=lambda kv: kv[0])))
    if isinstance(o, (list, tuple)):
        return (type(o).__name__,
                tuple(snapshot(v, depth + 1, rng_by_id) for v in o))
    import collections
    if isinstance(o, collections.deque):
        return ("deque", o.maxlen, tuple(snapshot(v, depth + 1, rng_by_id) for v in o))
    if isinstance(o, (set, frozenset)):
        return ("set", tuple(sorted(repr(x) for x in o)))
    if callable(o) and not hasattr(o, "get_params"):
        return ("callable", getattr(o, "__qualname__", type(o).__name__))
    if hasattr(o, "__dict__"):
        return (type(o).__name__, tuple(sorted(
            ((k, snapshot(v, depth + 1, rng_by_id)) for k, v in vars(o).items()),
            key=lambda kv: kv[0])))
    if hasattr(o, "__getstate__"):
        try:
            return (type(o).__name__, repr(o.__getstate__()))
        except Exception:
            pass
    return ("repr", type(o).__name__)


def snapshot_diff(a, b, path="", out=None, limit=6):
    """Return up to `limit` paths at which two snapshots differ."""
    if out is None:
        out = []
    if len(out) >= limit:
        return out
    if type(a) != type(b):
        out.append(f"{path}: type {type(a).__name__} vs {type(b).__name__}")
        return out
    if isinstance(a, tuple):
        if len(a) != len(b):
            out.append(f"{path}: len {len(a)} vs {len(b)}")
            return out
        # keyed tuple pairs
        for i, (x, y) in enumerate(zip(a, b)):
            key = i
            if (isinstance(x, tuple) and len(x) == 2
                    and isinstance(x[0], str) and isinstance(y, tuple)
                    and len(y) == 2 and x[0] == y[0]):
                snapshot_diff(x[1], y[1], f"{path}.{x[0]}", out, limit)
            else:
                snapshot_diff(x, y, f"{path}[{key}]", out, limit)
        return out
    if a != b:
        ra, rb = repr(a), repr(b)
        out.append(f"{path}: {ra[:60]} vs {rb[:60]}")
    return out
