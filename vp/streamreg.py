"""Registry of the stream query strategies and budget managers (C03, C10).

Everything is data: a component is addressed by (kind, name, config) where
config is a plain JSON dict; `build_*` turns it into a live object, the
`*_config` Hypothesis strategies generate configs from the documented
parameter domains.  At import the registry is compared with
`skactiveml.stream.__all__` and `skactiveml.stream.budgetmanager.__all__`;
a class missing here (or a stale name) is a HarnessError, so a component
added to the package later cannot silently escape the checks.
"""
import inspect

import numpy as np
from hypothesis import strategies as st

from .common import HarnessError, snapshot, snapshot_diff

# incl. budgets whose reciprocal is not (close to) an integer: 1/0.15 = 6.67,
# 1/0.35 = 2.86, 1/0.6 = 1.67 (floor and round differ)
BUDGETS = [0.01, 0.1, 0.3, 0.5, 0.9, 1.0, 0.15, 0.35, 0.6, 0.07, 0.25]
_FREE_BUDGET = st.floats(0.02, 0.98).map(lambda v: round(v, 3))
WINDOWS = [1, 2, 5, 20, 100]
CLASS_SETS = [[0, 1], [0, 1, 2]]
SEEDS = st.integers(0, 2**31 - 2)

# --------------------------------------------------------------------------
# budget managers
#   params      : name -> list of admissible values (documented domain)
#   rng         : has a random_state
#   normal      : draws normally distributed numbers (chunking invariance is
#                 not claimed, C10 quantifier)
#   chunk_inv   : chunking invariance is claimed (C10 b)
#   needs_util  : update() needs the utilities
#   nan_ok      : the library itself feeds NaN utilities to this manager
#                 (density / cognitive strategies), so NaN is in the domain
# --------------------------------------------------------------------------
_THETA = [1.0, 1.0, 0.5, 0.8]
_S = [0.01, 0.1, 0.5, 0.05, 0.2, 1.0]
MANAGERS = {
    "EstimatedBudgetZliobaite": dict(abstract=True),
    "FixedUncertaintyBudgetManager": dict(
        params=dict(w=WINDOWS, budget=BUDGETS), takes_classes=True,
        rng=False, normal=False, chunk_inv=True, needs_util=False,
        nan_ok=True),
    "VariableUncertaintyBudgetManager": dict(
        params=dict(theta=_THETA, s=_S, w=WINDOWS, budget=BUDGETS),
        rng=False, normal=False, chunk_inv=True, needs_util=False,
        nan_ok=True),
    "RandomVariableUncertaintyBudgetManager": dict(
        params=dict(delta=[1.0, 0.1, 0.5], theta=_THETA, s=_S, w=WINDOWS,
                    budget=BUDGETS),
        rng=True, normal=True, chunk_inv=False, needs_util=False,
        nan_ok=True),
    "SplitBudgetManager": dict(
        params=dict(v=[0.1, 0.5, 0.9], theta=_THETA, s=_S, w=WINDOWS,
                    budget=BUDGETS),
        rng=True, normal=False, chunk_inv=True, needs_util=False,
        nan_ok=True),
    "RandomBudgetManager": dict(
        params=dict(w=WINDOWS, budget=BUDGETS),
        rng=True, normal=False, chunk_inv=True, needs_util=False,
        nan_ok=True),
    "DensityBasedSplitBudgetManager": dict(
        params=dict(theta=_THETA, s=_S, delta=[1.0, 0.1, 0.5],
                    budget=BUDGETS),
        rng=True, normal=True, chunk_inv=False, needs_util=False,
        nan_ok=True),
    "BalancedIncrementalQuantileFilter": dict(
        params=dict(w=WINDOWS, w_tol=[1, 5, 50, 2.5], budget=BUDGETS),
        rng=False, normal=False, chunk_inv=True, needs_util=True,
        nan_ok=False),
}

# --------------------------------------------------------------------------
# stream strategies
#   clf         : query takes clf, X, y, sample_weight, fit_clf
#   bm          : default budget manager class (None: no budget manager)
#   bm_arg      : the constructor accepts `budget_manager`
#   label_keys  : config keys that are part of the component label
#   cognitive / density : built on per-instance manager calls
#   chunk_inv   : chunking invariance claimed (C10 b)
# --------------------------------------------------------------------------
_COG = dict(force_full_budget=[False, True], density_threshold=[0, 1, 1, 2],
            cognition_window_size=WINDOWS, budget=BUDGETS)
STRATEGIES = {
    "StreamRandomSampling": dict(
        params=dict(allow_exceeding_budget=[True, False], budget=BUDGETS),
        clf=False, bm=None, bm_arg=False,
        label_keys=["allow_exceeding_budget"], chunk_inv=True),
    "PeriodicSampling": dict(
        params=dict(budget=BUDGETS), clf=False, bm=None, bm_arg=False,
        label_keys=[], chunk_inv=True),
    "FixedUncertainty": dict(
        params=dict(budget=BUDGETS), takes_classes=True, clf=True,
        bm="FixedUncertaintyBudgetManager", bm_arg=True, label_keys=[],
        chunk_inv=True),
    "VariableUncertainty": dict(
        params=dict(budget=BUDGETS), clf=True,
        bm="VariableUncertaintyBudgetManager", bm_arg=True, label_keys=[],
        chunk_inv=True),
    "RandomVariableUncertainty": dict(
        params=dict(budget=BUDGETS), clf=True,
        bm="RandomVariableUncertaintyBudgetManager", bm_arg=True,
        label_keys=[], chunk_inv=False),
    "Split": dict(
        params=dict(budget=BUDGETS), clf=True, bm="SplitBudgetManager",
        bm_arg=True, label_keys=[], chunk_inv=True),
    "StreamProbabilisticAL": dict(
        params=dict(metric=[None, "rbf"],
                    metric_dict=[None, None, {"gamma": "mean"},
                                 {"gamma": 0.5}, {"gamma": 2.0}],
                    prior=[1.0e-3, 1.0, 0.1], m_max=[1, 2, 3],
                    budget=BUDGETS),
        clf=True, bm="BalancedIncrementalQuantileFilter", bm_arg=True,
        label_keys=["metric"], chunk_inv=True, needs_freq=True),
    "StreamDensityBasedAL": dict(
        params=dict(window_size=WINDOWS, budget=BUDGETS), clf=True,
        bm="DensityBasedSplitBudgetManager", bm_arg=True, label_keys=[],
        chunk_inv=False, density=True),
    "CognitiveDualQueryStrategy": dict(
        params=dict(_COG), clf=True,
        bm="RandomVariableUncertaintyBudgetManager", bm_arg=True,
        label_keys=["force_full_budget"], chunk_inv=False, cognitive=True),
    "CognitiveDualQueryStrategyRan": dict(
        params=dict(_COG), clf=True, bm="RandomBudgetManager", bm_arg=False,
        label_keys=["force_full_budget"], chunk_inv=False, cognitive=True),
    "CognitiveDualQueryStrategyFixUn": dict(
        params=dict(_COG), takes_classes=True, clf=True,
        bm="FixedUncertaintyBudgetManager", bm_arg=False,
        label_keys=["force_full_budget"], chunk_inv=False, cognitive=True),
    "CognitiveDualQueryStrategyVarUn": dict(
        params=dict(_COG), clf=True, bm="VariableUncertaintyBudgetManager",
        bm_arg=False, label_keys=["force_full_budget"], chunk_inv=False,
        cognitive=True),
    "CognitiveDualQueryStrategyRanVarUn": dict(
        params=dict(_COG), clf=True,
        bm="RandomVariableUncertaintyBudgetManager", bm_arg=False,
        label_keys=["force_full_budget"], chunk_inv=False, cognitive=True),
}

CONCRETE_MANAGERS = [n for n, s in MANAGERS.items() if not s.get("abstract")]


def _check_registry():
    import skactiveml.stream as S
    import skactiveml.stream.budgetmanager as B
    exp_s = {n for n in S.__all__ if inspect.isclass(getattr(S, n, None))}
    exp_b = {n for n in B.__all__ if inspect.isclass(getattr(B, n, None))}
    problems = []
    for what, exported, reg in (("stream", exp_s, STRATEGIES),
                                ("stream.budgetmanager", exp_b, MANAGERS)):
        missing = sorted(exported - set(reg))
        stale = sorted(set(reg) - exported)
        if missing:
            problems.append(f"skactiveml.{what} exports {missing} which "
                            f"vp/streamreg.py does not register")
        if stale:
            problems.append(f"vp/streamreg.py registers {stale} which "
                            f"skactiveml.{what} does not export")
    for n, spec in MANAGERS.items():
        cls = getattr(B, n, None)
        if cls is None:
            continue
        if bool(spec.get("abstract")) != inspect.isabstract(cls):
            problems.append(
                f"{n}: registry abstract={spec.get('abstract')} but "
                f"inspect.isabstract={inspect.isabstract(cls)}")
    for n, spec in STRATEGIES.items():
        cls = getattr(S, n, None)
        if cls is None:
            continue
        sig = inspect.signature(cls.__init__).parameters
        if ("budget_manager" in sig) != spec["bm_arg"]:
            problems.append(f"{n}: registry bm_arg={spec['bm_arg']} does not "
                            f"match the constructor")
        for p in list(spec["params"]) + (
                ["classes"] if spec.get("takes_classes") else []):
            if p not in sig:
                problems.append(f"{n}: constructor has no parameter {p!r}")
        qsig = inspect.signature(cls.query).parameters
        if ("clf" in qsig) != spec["clf"]:
            problems.append(f"{n}: registry clf={spec['clf']} does not match "
                            f"query()")
    if problems:
        raise HarnessError("stream registry inconsistent: "
                           + "; ".join(problems))


_check_registry()


# ------------------------------------------------------------ builders ----
def _plain(v):
    """JSON round trip safety: dict values stay dicts, lists stay lists."""
    if isinstance(v, dict):
        return {k: _plain(x) for k, x in v.items()}
    return v


def build_manager(name, config):
    import skactiveml.stream.budgetmanager as B
    spec = MANAGERS[name]
    if spec.get("abstract"):
        raise HarnessError(f"{name} is abstract")
    kw = {k: _plain(v) for k, v in config.items()}
    return getattr(B, name)(**kw)


def build_strategy(name, config, bm_obj=None):
    """bm_obj: an already constructed budget manager object to pass as
    `budget_manager` (a caller re-using one manager object for several
    strategy objects)."""
    import skactiveml.stream as S
    spec = STRATEGIES[name]
    kw = {k: _plain(v) for k, v in config.items() if k != "bm"}
    bm = config.get("bm")
    if bm is not None:
        if not spec["bm_arg"]:
            raise HarnessError(f"{name} takes no budget_manager")
        kw["budget_manager"] = (bm_obj if bm_obj is not None else
                                build_manager(bm["name"], bm["config"]))
    return getattr(S, name)(**kw)


def build(kind, name, config):
    return (build_strategy if kind == "strategy" else build_manager)(
        name, config)


def spec_of(kind, name):
    return (STRATEGIES if kind == "strategy" else MANAGERS)[name]


def component_label(kind, name, config):
    spec = spec_of(kind, name)
    parts = [f"{k}={config.get(k)}" for k in spec.get("label_keys", [])]
    if name == "StreamProbabilisticAL" and config.get("metric") == "rbf":
        md = config.get("metric_dict")
        g = "mean" if md is None else md.get("gamma")
        parts.append("gamma=mean" if g == "mean" else "gamma=fixed")
    return name + (f"[{','.join(parts)}]" if parts else "")


def manager_of(kind, obj):
    """The live budget manager of a component (None if there is none yet)."""
    if kind == "manager":
        return obj
    return getattr(obj, "budget_manager_", None)


def manager_name(kind, name, config):
    if kind == "manager":
        return name
    bm = config.get("bm")
    return bm["name"] if bm else STRATEGIES[name]["bm"]


# ---------------------------------------------------------- classifiers ----
def _clf_classes():
    from skactiveml.base import ClassFrequencyEstimator
    from skactiveml.classifier import ParzenWindowClassifier
    from sklearn.utils import check_array

    class RowwisePWC(ParzenWindowClassifier):
        """ParzenWindowClassifier evaluated one row at a time, so that the
        frequency estimate of an instance is bit-identical no matter how the
        stream is cut into chunks (BLAS gemv/gemm differ in the last bit)."""

        def predict_freq(self, X):
            X = check_array(X)
            if len(X) == 0:
                return super().predict_freq(X)
            return np.vstack([ParzenWindowClassifier.predict_freq(
                self, X[i:i + 1]) for i in range(len(X))])

    class StubClassifier(ClassFrequencyEstimator):
        """Class frequencies are |first K features| * scale: element-wise
        arithmetic only (chunking invariant, independent of the training
        data), so the generator controls the utilities directly."""

        def __init__(self, scale=1.0, class_prior=0, classes=None,
                     missing_label=np.nan, cost_matrix=None,
                     random_state=None):
            super().__init__(class_prior=class_prior, classes=classes,
                             missing_label=missing_label,
                             cost_matrix=cost_matrix,
                             random_state=random_state)
            self.scale = scale

        def fit(self, X, y, sample_weight=None):
            X, y, sample_weight = self._validate_data(X, y, sample_weight)
            self.class_prior_ = np.zeros((1, len(self.classes_)))
            return self

        def predict_freq(self, X):
            X = check_array(X)
            k = len(self.classes_)
            F = np.ones((len(X), k))
            m = min(k, X.shape[1])
            F[:, :m] = np.abs(X[:, :m])
            return F * self.scale

    return ParzenWindowClassifier, RowwisePWC, StubClassifier


_CLF_CACHE = {}


def build_clf(cfg, classes):
    """cfg: {"type": "pwc"|"pwc_rowwise"|"stub", ...}; returns an unfitted
    classifier."""
    if "cls" not in _CLF_CACHE:
        _CLF_CACHE["cls"] = _clf_classes()
    PWC, RowPWC, Stub = _CLF_CACHE["cls"]
    t = cfg["type"]
    if t == "pwc":
        return PWC(classes=list(classes), random_state=0)
    if t == "pwc_rowwise":
        return RowPWC(classes=list(classes), random_state=0)
    if t == "stub":
        return Stub(scale=cfg.get("scale", 1.0), classes=list(classes),
                    random_state=0)
    raise HarnessError(f"unknown classifier type {t!r}")


# ---------------------------------------------------------------- calls ----
# how arguments are handed over: "ndarray" | "int32_idx" (queried indices as
# an int32 array instead of the int64 array query returned) | "list" (nested
# Python lists). "list" is NOT generated: although the docstrings say
# array-like, the budget managers reject non-ndarray utilities with an
# explicit TypeError and some update methods use candidates.shape - input
# validation that none of the listed properties is about (a survey with
# lists only produced these rejections).
_ARG_STYLE = "ndarray"
ARG_STYLES = ["ndarray", "ndarray", "int32_idx"]


def set_arg_style(style):
    global _ARG_STYLE
    _ARG_STYLE = style or "ndarray"


def _arr(a):
    if a is None or _ARG_STYLE != "list":
        return a
    return np.asarray(a).tolist()


def _idx(q):
    if _ARG_STYLE == "list":
        return [int(i) for i in np.asarray(q).ravel()]
    if _ARG_STYLE == "int32_idx":
        return np.asarray(q).astype(np.int32)
    return q


def call_query(kind, name, obj, chunk, clf=None, X=None, y=None,
               sample_weight=None, fit_clf=False, return_utilities=False,
               utility_weight=None):
    """chunk: ndarray (n, d) for strategies, ndarray (n,) of utilities for
    managers.  Returns (queried_indices, utilities_or_None)."""
    if kind == "manager":
        return obj.query_by_utility(_arr(chunk)), None
    if STRATEGIES[name]["clf"]:
        kw = dict(candidates=_arr(chunk), clf=clf, X=_arr(X), y=_arr(y),
                  fit_clf=fit_clf, return_utilities=return_utilities)
        if sample_weight is not None:
            kw["sample_weight"] = _arr(sample_weight)
        if utility_weight is not None:
            kw["utility_weight"] = _arr(utility_weight)
        r = obj.query(**kw)
    else:
        r = obj.query(candidates=_arr(chunk),
                      return_utilities=return_utilities)
    if return_utilities:
        q, u = r
        return q, u
    return r, None


def call_update(kind, name, obj, chunk, q, utilities=None):
    q = _idx(q)
    if kind == "manager":
        cand = _arr(np.asarray(chunk, dtype=float).reshape(-1, 1))
        if MANAGERS[name]["needs_util"]:
            return obj.update(cand, q, _arr(np.asarray(chunk, dtype=float)))
        return obj.update(cand, q)
    sig = inspect.signature(obj.update).parameters
    if "budget_manager_param_dict" in sig:
        return obj.update(candidates=_arr(chunk), queried_indices=q,
                          budget_manager_param_dict={
                              "utilities": _arr(utilities)})
    return obj.update(candidates=_arr(chunk), queried_indices=q)


# ------------------------------------------------- Hypothesis strategies ----
def _wb():
    """(w, budget) pairs, biased towards b*w small enough for the budget
    guard to flip within a short stream."""
    pairs = [(w, b) for w in WINDOWS for b in BUDGETS]
    small = [(w, b) for (w, b) in pairs if b * w <= 10 and b < 1.0]
    return st.one_of(st.sampled_from(small), st.sampled_from(small),
                     st.sampled_from(pairs))


@st.composite
def manager_config(draw, name, classes=None, budget=None):
    spec = MANAGERS[name]
    cfg = {}
    params = dict(spec["params"])
    if "w" in params and budget is None:
        w, b = draw(_wb())
        cfg["w"], cfg["budget"] = w, b
        params.pop("w")
        params.pop("budget")
    for k, vals in params.items():
        cfg[k] = draw(st.sampled_from(vals))
    if budget is not None:
        cfg["budget"] = budget
    elif draw(st.integers(0, 4)) == 0:
        cfg["budget"] = draw(_FREE_BUDGET)
    if spec.get("takes_classes"):
        cfg["classes"] = list(classes if classes is not None
                              else draw(st.sampled_from(CLASS_SETS)))
    if spec["rng"]:
        cfg["random_state"] = draw(SEEDS)
    return cfg


@st.composite
def strategy_config(draw, name, classes):
    spec = STRATEGIES[name]
    cfg = {}
    for k, vals in spec["params"].items():
        cfg[k] = draw(st.sampled_from(vals))
    if draw(st.integers(0, 4)) == 0:
        cfg["budget"] = draw(_FREE_BUDGET)
    if name == "StreamProbabilisticAL" and cfg["metric"] is None:
        cfg["metric_dict"] = None
    if spec.get("takes_classes"):
        cfg["classes"] = list(classes)
    cfg["random_state"] = draw(SEEDS)
    if spec["bm_arg"] and draw(st.integers(0, 3)) > 0:
        # an explicit manager of the default class varies w / s / theta / v;
        # its budget equals the strategy's (no "budget differs" warning)
        bmc = draw(manager_config(spec["bm"], classes=classes))
        cfg["budget"] = bmc["budget"]
        cfg["bm"] = {"name": spec["bm"], "config": bmc}
    else:
        cfg["bm"] = None
    return cfg


@st.composite
def component(draw, kinds=("strategy", "manager"), names=None):
    """Draws (kind, name, config, classes)."""
    pool = []
    if "strategy" in kinds:
        pool += [("strategy", n) for n in STRATEGIES]
    if "manager" in kinds:
        pool += [("manager", n) for n in CONCRETE_MANAGERS]
    if names is not None:
        pool = [p for p in pool if p[1] in names]
    # components with several flag variants get proportionally more draws
    pool += [p for p in pool if p[1] == "StreamProbabilisticAL"] * 2
    pool += [p for p in pool if p[1] == "StreamRandomSampling"]
    kind, name = draw(st.sampled_from(pool))
    classes = draw(st.sampled_from(CLASS_SETS))
    if kind == "strategy":
        cfg = draw(strategy_config(name, classes))
    else:
        cfg = draw(manager_config(name, classes=classes))
    return kind, name, cfg, list(classes)


# feature rows: lattice (duplicates, exact distance ties) or continuous
_LAT = st.sampled_from([-2.0, -1.0, 0.0, 1.0, 2.0])
_CONT = st.floats(-4, 4, allow_nan=False).map(lambda v: round(v, 2))
# stub classifier: |x0| : |x1| are the class frequencies -> near-balanced
# values give utilities close to the maximum
_STUB = st.sampled_from([0.5, 1.0, 1.0, 1.1, 0.9, 2.0, 0.1, 3.0])


def row_strategy(regime, d):
    base = {"lattice": _LAT, "cont": _CONT, "stub": _STUB}[regime]
    return st.lists(base, min_size=d, max_size=d)


def rows(regime, d, min_size, max_size):
    return st.lists(row_strategy(regime, d), min_size=min_size,
                    max_size=max_size)


# utilities for managers driven directly (documented range [0, 1]; the
# uncertainty utilities of the strategies lie in [0, 1 - 1/K])
_UTIL_HI = st.sampled_from([1.0, 0.9, 0.5, 0.45, 0.3])
_UTIL_ANY = st.one_of(
    st.sampled_from([0.0, 0.1, 0.25, 0.5, 0.75, 1.0]),
    st.floats(0, 1, allow_nan=False).map(lambda v: round(v, 3)))


def utilities(min_size, max_size, nan_ok=False, high=False):
    el = [_UTIL_HI, _UTIL_HI, _UTIL_ANY] if high else [_UTIL_ANY, _UTIL_HI]
    if nan_ok:
        el = el + el + el + [st.just(float("nan"))]
    return st.lists(st.one_of(*el), min_size=min_size, max_size=max_size)


@st.composite
def training_set(draw, regime, d, classes, min_rows=1, max_rows=8):
    X = draw(rows(regime, d, min_rows, max_rows))
    lab = st.one_of(st.sampled_from(list(classes)),
                    st.sampled_from(list(classes)), st.just(float("nan")))
    y = draw(st.lists(lab, min_size=len(X), max_size=len(X)))
    y = [float(v) for v in y]
    w = draw(st.lists(st.sampled_from([1.0, 1.0, 0.5, 2.0]),
                      min_size=len(X), max_size=len(X)))
    return X, y, w


def train_slice(n, a, b):
    """Resolve a (a, b) pair of arbitrary non-negative ints to a non-empty
    slice [lo, hi) of range(n) - stays valid under shrinking."""
    lo = a % n
    hi = lo + 1 + b % (n - lo)
    return lo, hi


# ------------------------------------------------------- state by value ----
# bookkeeping of the last validated input: rewritten by every query AND
# update call (check_n_features(reset=True)), never read -> not state
IGNORED_ATTRS = {"n_features_in_"}


def state_of(obj):
    """By-value snapshot of vars(obj); nested estimators (budget managers)
    are kept as dicts so that they can be compared attribute-wise."""
    out = {}
    for k, v in vars(obj).items():
        if k in IGNORED_ATTRS:
            continue
        if hasattr(v, "get_params") and hasattr(v, "__dict__"):
            out[k] = ("estimator", type(v).__name__, state_of(v))
        else:
            out[k] = snapshot(v)
    return out


def _is_est(x):
    return isinstance(x, tuple) and len(x) == 3 and x[0] == "estimator"


def state_diff(sa, sb, prefix="", out=None):
    """Attributes present on BOTH sides whose values differ -> list of
    (dotted name, detail).  An attribute that only one twin has so far is
    lazy initialisation (legal); it is compared as soon as the other twin
    has it too."""
    out = [] if out is None else out
    for k in sorted(set(sa) & set(sb)):
        a, b = sa[k], sb[k]
        if _is_est(a) and _is_est(b) and a[1] == b[1]:
            state_diff(a[2], b[2], f"{prefix}{k}.", out)
        elif a != b:
            if _is_est(a) or _is_est(b):
                det = f"{prefix}{k}: {a[1]} vs {b[1]}"
            else:
                det = "; ".join(snapshot_diff(a, b, path=f"{prefix}{k}",
                                              limit=3))
            out.append((f"{prefix}{k}", det))
    return out
