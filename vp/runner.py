"""Campaign runner: shards Hypothesis campaigns over processes, matches
violations against the committed known-findings list, writes evidence,
prints VIOLATION / KNOWN-FINDING lines and sets the exit code.

exit 0: property held on everything explored (known findings are listed)
exit 1: at least one violation that known_findings.json does not list
exit 2: harness error (never a verdict about the property)
"""
import argparse
import collections
import importlib
import json
import multiprocessing as mp
import os
import sys
import time
import traceback

from . import common
from .common import HarnessError, Outcome, case_hash, dump_json, load_json

HERE = os.path.dirname(os.path.dirname(os.path.abspath(__file__)))
CHUNK = 200  # examples per Hypothesis round
MAX_ROOT_CAUSES = 6  # distinct new signatures enumerated per shard


class ViolationFound(Exception):
    pass


def load_module(pid):
    return importlib.import_module(f"vp.props.{pid.lower()}")


# ------------------------------------------------------------ findings ----
def load_findings(pid):
    if os.environ.get("VERIF_IGNORE_KNOWN") == "1":  # development aid
        return []
    paths = [os.path.join(HERE, "known_findings.json")]
    d = os.path.join(HERE, "known_findings.d")
    if os.path.isdir(d):
        paths += [os.path.join(d, n) for n in sorted(os.listdir(d))
                  if n.endswith(".json")]
    out = []
    for path in paths:
        if not os.path.exists(path):
            continue
        data = load_json(path)
        out += [e for e in data.get("entries", [])
                if e.get("property") == pid and e.get("status") == "known"]
    return out


def match_known(sig, known):
    for e in known:
        for s in e.get("signatures", []):
            if s == sig:
                return e["id"]
    return None


# -------------------------------------------------------------- worker ----
class Stats:
    def __init__(self):
        self.evaluations = 0
        self.nontrivial = set()
        self.distinct = set()
        self.labels = collections.Counter()
        self.samples = []
        self.sample_labels = set()
        self.known_hits = collections.Counter()
        self.excluded_hits = collections.Counter()
        self.skipped_budget = 0

    def record(self, case, out):
        self.evaluations += 1
        h = case_hash(case)
        self.distinct.add(h)
        for lab in out.labels:
            self.labels[lab] += 1
        meta = case.get("meta") if isinstance(case, dict) else None
        if isinstance(meta, dict) and meta.get("excluded"):
            # input replaced by construction because of a confirmed finding
            self.labels[f"excluded_by_construction={meta['excluded']}"] += 1
        if out.nontrivial:
            if h not in self.nontrivial:
                self.nontrivial.add(h)
                self.labels["nontrivial"] += 1
                key = tuple(sorted(l for l in out.labels
                                   if l.startswith("component=")))
                if len(self.samples) < 3 or (
                        key not in self.sample_labels
                        and len(self.samples) < 12):
                    self.sample_labels.add(key)
                    self.samples.append({"case": case, "labels": out.labels})


def _settings(n, shrink=True):
    from hypothesis import HealthCheck, Phase, settings
    phases = [Phase.generate] + ([Phase.shrink] if shrink else [])
    return settings(
        max_examples=n,
        database=None,
        deadline=None,
        derandomize=False,
        report_multiple_bugs=False,
        phases=phases,
        suppress_health_check=list(HealthCheck),
        print_blob=False,
    )


def shard_worker(args):
    (pid, tier, seed, shard, nshards, examples, budget_s, known,
     survey) = args
    survey_samples = {}
    t0 = time.monotonic()
    res = {"shard": shard, "failures": [], "error": None}
    stats = Stats()
    try:
        import hypothesis
        from hypothesis import given
        mod = load_module(pid)
        strat = mod.case_strategy(tier, shard, nshards)
        excluded = set()
        remaining = examples
        rnd = 0
        shrink_budget = max(20.0, budget_s * 0.5)
        while (remaining > 0 and time.monotonic() - t0 < budget_s
               and len(res["failures"]) < MAX_ROOT_CAUSES):
            chunk = min(CHUNK, remaining)
            sd = (seed * 1000 + shard) * 1000 + rnd
            state = {"fail": None, "t_fail": None}

            def body(case):
                now = time.monotonic()
                if state["t_fail"] is None and now - t0 > budget_s:
                    stats.skipped_budget += 1
                    return
                if (state["t_fail"] is not None
                        and now - state["t_fail"] > shrink_budget):
                    # stop shrinking: every further candidate "passes"
                    return
                out = mod.run_case(case)
                stats.record(case, out)
                for v in out.violations:
                    kid = match_known(v.signature, known)
                    if kid is not None:
                        stats.known_hits[kid] += 1
                    elif v.signature in excluded or survey:
                        stats.excluded_hits[v.signature] += 1
                        if survey:
                            old = survey_samples.get(v.signature)
                            size = len(json.dumps(common.to_jsonable(case),
                                                  default=str))
                            if old is None or size < old[0]:
                                survey_samples[v.signature] = (
                                    size, case, v.to_json())
                    else:
                        if state["t_fail"] is None:
                            state["t_fail"] = now
                        state["fail"] = (case, v)
                        raise ViolationFound(v.signature)

            test = hypothesis.seed(sd)(_settings(chunk)(given(strat)(body)))
            try:
                test()
            except ViolationFound:
                pass
            except BaseException as e:  # Flaky etc.
                if state["fail"] is None:
                    raise
                res.setdefault("notes", []).append(
                    f"hypothesis raised {type(e).__name__} while shrinking")
            if state["fail"] is not None:
                case, v = state["fail"]
                excluded.add(v.signature)
                res["failures"].append({"case": case,
                                        "violation": v.to_json(),
                                        "hyp_seed": sd})
            remaining -= chunk
            rnd += 1
    except BaseException as e:  # harness error
        res["error"] = "".join(traceback.format_exception(e))[-4000:]
    res.update(
        evaluations=stats.evaluations,
        nontrivial=sorted(stats.nontrivial),
        distinct=len(stats.distinct),
        labels=dict(stats.labels),
        samples=stats.samples,
        known_hits=dict(stats.known_hits),
        excluded_hits=dict(stats.excluded_hits),
        skipped_budget=stats.skipped_budget,
        survey_samples=survey_samples,
        wall_s=time.monotonic() - t0,
    )
    return res


# -------------------------------------------------------------- replay ----
def run_replay_file(mod, path, known):
    """Returns (new_violations, known_ids_hit, outcome)."""
    data = load_json(path)
    case = data["case"] if isinstance(data, dict) and "case" in data else data
    out = mod.run_case(case)
    new, hit = [], []
    for v in out.violations:
        kid = match_known(v.signature, known)
        if kid is None:
            new.append(v)
        else:
            hit.append(kid)
    return new, hit, out


def replay_corpus(mod, pid, known):
    """Replay the committed regression corpus first."""
    d = os.path.join(HERE, "replays", pid)
    results = {"files": 0, "new": [], "known_hit": collections.Counter()}
    if not os.path.isdir(d):
        return results
    for name in sorted(os.listdir(d)):
        if not name.endswith(".json"):
            continue
        path = os.path.join(d, name)
        results["files"] += 1
        new, hit, _ = run_replay_file(mod, path, known)
        for k in hit:
            results["known_hit"][k] += 1
        for v in new:
            results["new"].append((path, v))
    return results


def _corpus_worker(args):
    pid, known = args
    try:
        mod = load_module(pid)
        r = replay_corpus(mod, pid, known)
        return {"files": r["files"],
                "new": [(p, v.to_json()) for p, v in r["new"]],
                "known_hit": dict(r["known_hit"]), "error": None}
    except BaseException as e:
        return {"files": 0, "new": [], "known_hit": {},
                "error": "".join(traceback.format_exception(e))[-4000:]}


# ---------------------------------------------------------------- main ----
def main(argv=None):
    ap = argparse.ArgumentParser()
    ap.add_argument("property")
    ap.add_argument("--tier", default=os.environ.get("VERIF_TIER", "quick"),
                    choices=["quick", "thorough"])
    ap.add_argument("--replay")
    ap.add_argument("--shards", type=int)
    ap.add_argument("--examples", type=int, help="examples per shard")
    ap.add_argument("--budget", type=float, help="seconds per shard")
    ap.add_argument("--no-evidence", action="store_true")
    ap.add_argument("--survey", action="store_true",
                    help="development aid: count every violation signature "
                         "instead of stopping; never writes evidence")
    args = ap.parse_args(argv)
    pid = args.property.upper()
    try:
        seed = int(os.environ.get("VERIF_SEED", "1"))
    except ValueError:
        seed = 1
    t0 = time.monotonic()
    try:
        mod = load_module(pid)
    except Exception:
        traceback.print_exc()
        print(f"HARNESS-ERROR property={pid} cannot import property module")
        return 2
    known = load_findings(pid)

    if args.replay:
        try:
            new, hit, out = run_replay_file(mod, args.replay, known)
        except Exception:
            traceback.print_exc()
            print(f"HARNESS-ERROR property={pid} replay failed to run")
            return 2
        for k in sorted(set(hit)):
            e = [e for e in known if e["id"] == k][0]
            print(f"KNOWN-FINDING: property={pid} {e['what']}")
        for v in new:
            print(f"  violation: {v.signature}: {v.detail}")
        if new:
            print(f"VIOLATION property={pid} replay={args.replay}")
            return 1
        print(f"OK property={pid} replay={args.replay} "
              f"(nontrivial={out.nontrivial}, labels={out.labels})")
        return 0

    prof = dict(mod.PROFILE[args.tier])
    if args.shards:
        prof["shards"] = args.shards
    if args.examples:
        prof["examples"] = args.examples
    if args.budget:
        prof["budget_s"] = args.budget
    nshards = prof.get("shards", 16)

    ctx = mp.get_context("fork")
    jobs = [(pid, args.tier, seed, s, nshards, prof["examples"],
             prof["budget_s"], known, args.survey)
            for s in range(nshards)]
    with ctx.Pool(min(nshards + 1, (os.cpu_count() or 4))) as pool:
        corpus_async = pool.apply_async(_corpus_worker, ((pid, known),))
        results = pool.map(shard_worker, jobs, chunksize=1)
        corpus = corpus_async.get()

    extra = {}
    if hasattr(mod, "extra_engines"):
        try:
            extra = mod.extra_engines(args.tier, seed) or {}
        except Exception:
            extra = {"error": traceback.format_exc()[-2000:]}

    errors = [r["error"] for r in results if r["error"]]
    if corpus["error"]:
        errors.append(corpus["error"])
    if extra.get("error"):
        errors.append(extra["error"])

    # aggregate
    evaluations = sum(r["evaluations"] for r in results)
    nontrivial = set()
    for r in results:
        nontrivial.update(r["nontrivial"])
    labels = collections.Counter()
    known_hits = collections.Counter(corpus["known_hit"])
    for r in results:
        labels.update(r["labels"])
        known_hits.update(r["known_hits"])
    samples = []
    seen_keys = set()
    for r in results:
        for s in r["samples"]:
            key = tuple(sorted(l for l in s["labels"]
                               if l.startswith("component=")))
            if key in seen_keys and len(samples) >= 4:
                continue
            seen_keys.add(key)
            if len(samples) < 10:
                samples.append(s)

    failures = []
    for p, v in corpus["new"]:
        failures.append({"replay": p, "violation": v, "source": "corpus"})
    seen_sig = set()
    out_dir = os.path.join(HERE, "replays", "found")
    for r in results:
        for f in r["failures"]:
            sig = f["violation"]["signature"]
            if sig in seen_sig:
                continue
            seen_sig.add(sig)
            os.makedirs(out_dir, exist_ok=True)
            path = os.path.join(
                out_dir, f"{pid}-{case_hash(f['case'])}.json")
            dump_json({"property": pid, "case": f["case"],
                       "violation": f["violation"], "seed": seed,
                       "tier": args.tier}, path)
            failures.append({"replay": path, "violation": f["violation"],
                             "source": f"shard{r['shard']}"})
    for f in extra.get("failures", []):
        failures.append(f)

    if args.survey:
        tot = collections.Counter()
        best = {}
        for r in results:
            tot.update(r["excluded_hits"])
            for sig, (size, case, v) in r["survey_samples"].items():
                if sig not in best or size < best[sig][0]:
                    best[sig] = (size, case, v)
        sd = os.path.join(HERE, "replays", "found", "survey")
        os.makedirs(sd, exist_ok=True)
        print(f"[{pid}] SURVEY evaluations={evaluations} "
              f"known_hits={dict(known_hits)}")
        for sig, n in sorted(tot.items()):
            path = os.path.join(sd, f"{pid}-{case_hash(best[sig][1])}.json")
            dump_json({"property": pid, "case": best[sig][1],
                       "violation": best[sig][2]}, path)
            print(f"  {n:6d}  {sig}\n          {best[sig][2]['detail'][:160]}"
                  f"\n          {path}")
        for e in errors[:2]:
            print(e)
        return 0 if not errors else 2
    wall = time.monotonic() - t0
    if not samples:
        # fall back to any evaluated case so that the list is never empty
        samples = [{"note": "no non-trivial case was produced"}]
    evidence = {
        "property_id": pid,
        "tier": args.tier,
        "seed": seed,
        "level": "exploration",
        "coverage": {
            "evaluations": evaluations + int(extra.get("evaluations", 0)),
            "distinct_nontrivial": len(nontrivial),
            "distinct_cases": sum(r["distinct"] for r in results),
            "rule": mod.RULE,
            "samples": samples,
            "class_distribution": dict(sorted(labels.items())),
            "known_finding_hits": dict(known_hits),
            "corpus_replays": corpus["files"],
            "shards": nshards,
            "examples_per_shard": prof["examples"],
            "budget_s_per_shard": prof["budget_s"],
            "skipped_for_budget": sum(r["skipped_budget"] for r in results),
            "shard_wall_s": [round(r["wall_s"], 1) for r in results],
            "engines": ["hypothesis"] + list(extra.get("engines", [])),
            "extra": {k: v for k, v in extra.items()
                      if k not in ("failures", "error", "engines",
                                   "evaluations")},
            "repo": common.REPO,
        },
        "assumptions": list(getattr(mod, "ASSUMPTIONS", [])),
        "wall_s": round(wall, 2),
        "violations": len(failures),
    }
    if not args.no_evidence and not errors and not args.survey:
        os.makedirs(os.path.join(HERE, "evidence"), exist_ok=True)
        dump_json(evidence, os.path.join(HERE, "evidence", f"{pid}.json"))

    print(f"[{pid}] tier={args.tier} seed={seed} evaluations={evaluations} "
          f"distinct_nontrivial={len(nontrivial)} wall={wall:.1f}s "
          f"shards={nshards}")
    top = ", ".join(f"{k}={v}" for k, v in sorted(labels.items())[:60])
    print(f"[{pid}] classes: {top}")
    if errors:
        for e in errors[:3]:
            print(e)
        print(f"HARNESS-ERROR property={pid} ({len(errors)} shard(s))")
        return 2
    for e in known:
        print(f"KNOWN-FINDING: property={pid} {e['what']} "
              f"[{e['id']} hits={known_hits.get(e['id'], 0)}]")
    if failures:
        for f in failures:
            v = f["violation"]
            print(f"  violation: {v['signature']}: {v['detail'][:300]}")
            print(f"VIOLATION property={pid} replay={f['replay']}")
        return 1
    print(f"OK property={pid}")
    return 0


if __name__ == "__main__":
    sys.exit(main())
