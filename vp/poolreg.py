"""Registry of the pool query strategies (DESIGN appendix A) and builders that
turn a plain case dict into live objects.

A *case* (see gen.pool_case) has the keys
  entry      registry name
  X          list of rows
  yid        list: class id (int) / real target (float) or None (= missing)
  K          number of declared classes (classification)
  enc        label-encoding name (see ENCODINGS)
  cand       {"mode": "none"} | {"mode": "idx", "value": [...]} |
             {"mode": "feat", "value": [[...], ...]}
  batch_size int
  seed       int random_state of the strategy
  opts       dict of per-entry options (gamma, fit flag, weights, ...)
"""
import numpy as np

from .common import HarnessError

# ------------------------------------------------------------ encodings ----
ENCODINGS = {
    # name: (class labels for ids 0..2, missing label, numpy dtype)
    "float_nan": ([0.0, 1.0, 2.0], float("nan"), float),
    "float10_nan": ([10.0, 20.0, 30.0], float("nan"), float),
    "int_m1": ([0, 1, 2], -1, int),
    "int_99": ([3, 5, 8], 99, int),
    "obj_none": (["a", "b", "c"], None, object),
    "str_zz": (["a", "b", "c"], "zz", "U2"),
    "str_empty": (["a", "b", "c"], "", "U2"),
    # numeric class labels in an object array with the None sentinel and
    # class labels of different lengths (used by the classifier part of C09)
    "objnum_none": ([0, 1, 2], None, object),
    "str_long": (["a", "bb", "ccc"], "zzzz", "U4"),
    # the array gets numpy's minimal string width: a declared class that has
    # not been observed yet may be longer than every entry of y
    "str_grow": (["a", "bb", "cccc"], "zz", "U"),
    # integer-typed label array with the NaN sentinel: only possible while no
    # label is missing (the array is float as soon as a NaN is stored)
    "intarr_nan": ([0, 1, 2], float("nan"), "int_if_complete"),
}
REG_SENTINELS = {"float_nan": float("nan"), "num_m999": -999.0}


def encode_labels(yid, enc, K=None):
    """class ids / None -> (y array, classes list, missing_label)."""
    labels, missing, dtype = ENCODINGS[enc]
    vals = [missing if v is None else labels[int(v)] for v in yid]
    if dtype == "int_if_complete":
        dtype = int if all(v is not None for v in yid) else float
    if dtype is object:
        y = np.empty(len(vals), dtype=object)
        for i, v in enumerate(vals):
            y[i] = v
    else:
        y = np.array(vals, dtype=dtype)
    classes = labels[: (K if K is not None else len(labels))]
    return y, list(classes), missing


def encode_targets(yid, enc="float_nan"):
    missing = REG_SENTINELS[enc]
    y = np.array([missing if v is None else float(v) for v in yid],
                 dtype=float)
    return y, missing


# --------------------------------------------------------------- models ----
def make_clf(key, classes, missing, opts, random_state=0):
    from skactiveml.classifier import (MixtureModelClassifier,
                                       ParzenWindowClassifier,
                                       SklearnClassifier)
    gamma = opts.get("gamma", 1.0)
    if key == "pwc":
        return ParzenWindowClassifier(
            classes=classes, missing_label=missing,
            metric_dict={"gamma": gamma}, random_state=random_state,
            class_prior=opts.get("class_prior", 0.0))
    if key == "pwc_prior":
        return ParzenWindowClassifier(
            classes=classes, missing_label=missing,
            metric_dict={"gamma": gamma}, random_state=random_state,
            class_prior=1.0)
    if key == "pwc_default":
        return ParzenWindowClassifier(classes=classes, missing_label=missing,
                                      random_state=random_state)
    if key == "gnb":
        from sklearn.naive_bayes import GaussianNB
        return SklearnClassifier(GaussianNB(), classes=classes,
                                 missing_label=missing,
                                 random_state=random_state)
    if key == "lr":
        from sklearn.linear_model import LogisticRegression
        return SklearnClassifier(
            LogisticRegression(max_iter=60, random_state=0),
            classes=classes, missing_label=missing,
            random_state=random_state)
    if key == "tree_clf":
        from sklearn.tree import DecisionTreeClassifier
        return SklearnClassifier(
            DecisionTreeClassifier(max_depth=3, random_state=0),
            classes=classes, missing_label=missing,
            random_state=random_state)
    if key == "mmc":
        return MixtureModelClassifier(classes=classes, missing_label=missing,
                                      random_state=random_state)
    if key == "mmc_gm":
        from sklearn.mixture import GaussianMixture
        return MixtureModelClassifier(
            mixture_model=GaussianMixture(n_components=2, random_state=0,
                                          reg_covar=1e-2),
            classes=classes, missing_label=missing,
            random_state=random_state)
    raise HarnessError(f"unknown clf key {key}")


def make_ensemble(key, classes, missing, opts):
    from skactiveml.classifier import (ParzenWindowClassifier,
                                       SklearnClassifier)
    if key == "pwc_list":
        return [
            ParzenWindowClassifier(classes=classes, missing_label=missing,
                                   metric_dict={"gamma": g}, random_state=i)
            for i, g in enumerate([0.3, 1.0, 3.0])
        ]
    if key == "pwc_tuple":
        return tuple(
            ParzenWindowClassifier(classes=classes, missing_label=missing,
                                   metric_dict={"gamma": g}, random_state=i)
            for i, g in enumerate([0.5, 2.0]))
    if key == "gnb_pwc_list":
        return [make_clf("gnb", classes, missing, opts, 1),
                make_clf("pwc", classes, missing, opts, 2)]
    if key == "rf":
        from sklearn.ensemble import RandomForestClassifier
        return SklearnClassifier(
            RandomForestClassifier(n_estimators=3, max_depth=3,
                                   random_state=0),
            classes=classes, missing_label=missing, random_state=0)
    raise HarnessError(f"unknown ensemble key {key}")


def make_reg(key, missing, opts):
    from skactiveml.regressor import (NICKernelRegressor, SklearnRegressor,
                                      SklearnNormalRegressor)
    gamma = opts.get("gamma", 1.0)
    if key == "nic":
        return NICKernelRegressor(metric_dict={"gamma": gamma},
                                  missing_label=missing, random_state=0)
    if key == "nic_default":
        return NICKernelRegressor(missing_label=missing, random_state=0)
    if key == "tree":
        from sklearn.tree import DecisionTreeRegressor
        return SklearnRegressor(
            DecisionTreeRegressor(min_samples_leaf=opts.get("msl", 1),
                                  random_state=0),
            missing_label=missing, random_state=0)
    if key == "lin":
        from sklearn.linear_model import LinearRegression
        return SklearnRegressor(LinearRegression(), missing_label=missing,
                                random_state=0)
    if key == "gpr":
        from sklearn.gaussian_process import GaussianProcessRegressor
        return SklearnNormalRegressor(
            GaussianProcessRegressor(alpha=1e-2, optimizer=None,
                                     random_state=0),
            missing_label=missing, random_state=0)
    if key == "reg_list":
        from sklearn.linear_model import LinearRegression
        from sklearn.tree import DecisionTreeRegressor
        return [
            SklearnRegressor(LinearRegression(), missing_label=missing,
                             random_state=0),
            SklearnRegressor(DecisionTreeRegressor(max_depth=2,
                                                   random_state=0),
                             missing_label=missing, random_state=1),
            NICKernelRegressor(metric_dict={"gamma": gamma},
                               missing_label=missing, random_state=2),
        ]
    if key == "reg_list_no_tree":
        # committee without a decision tree: scikit-learn's tree induction
        # breaks exactly tied splits by floating-point summation order, so
        # it is not invariant under a permutation of the training rows
        from sklearn.linear_model import LinearRegression
        return [
            SklearnRegressor(LinearRegression(), missing_label=missing,
                             random_state=0),
            NICKernelRegressor(missing_label=missing, random_state=1),
            NICKernelRegressor(metric_dict={"gamma": gamma},
                               missing_label=missing, random_state=2),
        ]
    if key == "rf_reg":
        from sklearn.ensemble import RandomForestRegressor
        return SklearnRegressor(
            RandomForestRegressor(n_estimators=3, max_depth=3,
                                  random_state=0),
            missing_label=missing, random_state=0)
    raise HarnessError(f"unknown reg key {key}")


# ------------------------------------------------------------- registry ----
def E(name, cls, init=None, model=None, task="clf", feat=True, sw=None,
      sel="max", arb_idx=False, K=(2, 3), min_n=2, max_n=12, weight=1.0,
      sample_weight=False, utility_weight=False, notes="", defaults=True,
      cluster=False, alt=None):
    return dict(name=name, cls=cls, init=init or {}, model=model, task=task,
                feat=feat, sw=sw, sel=sel, arb_idx=arb_idx, K=tuple(K),
                min_n=min_n, max_n=max_n, weight=weight,
                sample_weight=sample_weight, utility_weight=utility_weight,
                notes=notes, defaults=defaults, cluster=cluster,
                alt=list(alt or []))


CM2 = [[0.0, 1.0], [3.0, 0.0]]
CM3 = [[0.0, 1.0, 2.0], [3.0, 0.0, 1.0], [1.0, 2.0, 0.0]]

POOL_ENTRIES = [
    E("RandomSampling", "RandomSampling", task="any", sw="full", sel="sample",
      arb_idx=True),
    E("US[least_confident]", "UncertaintySampling",
      {"method": "least_confident"}, ("clf", "pwc"), sw="full", arb_idx=True,
      sample_weight=True, utility_weight=True),
    E("US[margin_sampling]", "UncertaintySampling",
      {"method": "margin_sampling"}, ("clf", "gnb"), sw="full", arb_idx=True,
      sample_weight=True),
    E("US[entropy]", "UncertaintySampling", {"method": "entropy"},
      ("clf", "pwc"), sw="full", arb_idx=True, sample_weight=True),
    E("US[least_confident+cost]", "UncertaintySampling",
      {"method": "least_confident", "cost_matrix": "$cost"},
      ("clf", "pwc"), sw="full", arb_idx=True),
    E("US[expected_average_precision]", "UncertaintySampling",
      {"method": "expected_average_precision"}, ("clf", "pwc"), sw=None,
      arb_idx=True, max_n=8, weight=0.5),
    E("ProbabilisticAL", "ProbabilisticAL", {}, ("clf", "pwc"), sw="full",
      arb_idx=True, sample_weight=True, utility_weight=True),
    E("ProbabilisticAL[rbf]", "ProbabilisticAL", {"metric": "rbf"},
      ("clf", "pwc"), sw="full", arb_idx=True,
      alt=[{"metric_dict": {"gamma": "mean"}},
           {"metric_dict": {"gamma": 0.7}}]),
    E("EpistemicUS[pwc]", "EpistemicUncertaintySampling", {},
      ("clf", "pwc"), sw="full", arb_idx=True, K=(2,)),
    E("EpistemicUS[pwc,precompute]", "EpistemicUncertaintySampling",
      {"precompute": True}, ("clf", "pwc"), sw="full", arb_idx=True, K=(2,),
      weight=0.5),
    E("EpistemicUS[lr]", "EpistemicUncertaintySampling", {},
      ("clf", "lr"), sw="full", arb_idx=True, K=(2,), max_n=7, weight=0.15),
    E("MonteCarloEER[misclassification]", "MonteCarloEER",
      {"method": "misclassification_loss"}, ("clf", "pwc"), sw="full",
      arb_idx=True, weight=0.5),
    E("MonteCarloEER[log_loss]", "MonteCarloEER", {"method": "log_loss"},
      ("clf", "pwc_prior"), sw="full", arb_idx=True, weight=0.5),
    E("MonteCarloEER[subtract_current]", "MonteCarloEER",
      {"method": "misclassification_loss", "subtract_current": True},
      ("clf", "pwc"), sw="full", arb_idx=True, weight=0.4),
    E("VOI-EER", "ValueOfInformationEER", {}, ("clf", "pwc"), feat=False,
      sw="full", arb_idx=True, weight=0.5,
      alt=[{"consider_labeled": False},
           {"consider_unlabeled": False},
           {"candidate_to_labeled": False}]),
    E("VOI-EER[subtract_current,normalize]", "ValueOfInformationEER",
      {"subtract_current": True, "normalize": True}, ("clf", "pwc"),
      feat=False, sw="full", arb_idx=True, weight=0.4,
      alt=[{"normalize": True, "consider_labeled": False},
           {"normalize": True, "consider_unlabeled": False,
            "candidate_to_labeled": False},
           {"normalize": True, "consider_unlabeled": False}]),
    E("QBC[KL_divergence]", "QueryByCommittee", {"method": "KL_divergence"},
      ("ensemble", "pwc_list"), sw="full", arb_idx=True, sample_weight=True),
    E("QBC[vote_entropy]", "QueryByCommittee", {"method": "vote_entropy"},
      ("ensemble", "pwc_list"), sw="full", arb_idx=True),
    E("QBC[variation_ratios]", "QueryByCommittee",
      {"method": "variation_ratios"}, ("ensemble", "gnb_pwc_list"),
      sw="full", arb_idx=True),
    E("QBC[KL,tuple]", "QueryByCommittee", {"method": "KL_divergence"},
      ("ensemble", "pwc_tuple"), sw="full", arb_idx=True, weight=0.5),
    E("QBC[KL,rf]", "QueryByCommittee", {"method": "KL_divergence"},
      ("ensemble", "rf"), sw="full", arb_idx=True, weight=0.4),
    E("QBC[regression]", "QueryByCommittee", {},
      ("reg_ensemble", "reg_list"), task="reg", sw="full", arb_idx=True),
    E("GreedyBALD", "GreedyBALD", {}, ("ensemble", "pwc_list"), sw="full",
      arb_idx=True),
    E("BatchBALD", "BatchBALD", {}, ("ensemble", "pwc_list"), sw="row0",
      arb_idx=True),
    E("Quire", "Quire", {"classes": "$classes"}, None, feat=False, sw="full",
      weight=0.7, alt=[{"metric_dict": {"gamma": 0.5}, "lmbda": 0.5},
                       {"metric": "precomputed"}]),
    E("FourDs", "FourDs", {}, ("clf", "mmc"), sw=None, min_n=4, weight=0.5),
    E("CostEmbeddingAL", "CostEmbeddingAL", {"classes": "$classes"}, None,
      sw="r", max_n=9, weight=0.15,
      alt=[{"cost_matrix": "$cost", "mds_params": {"max_iter": 30},
            "nn_params": {"algorithm": "brute"}}]),
    E("DiscriminativeAL[greedy]", "DiscriminativeAL",
      {"greedy_selection": True}, ("discriminator", "pwc"), task="any",
      feat=False, sw="full", arb_idx=True),
    E("DiscriminativeAL[sequential]", "DiscriminativeAL",
      {"greedy_selection": False}, ("discriminator", "pwc"), task="any",
      feat=False, sw="row0", arb_idx=True),
    E("CoreSet", "CoreSet", {}, None, task="any", sw="row0"),
    E("TypiClust", "TypiClust",
      {"cluster_algo_dict": {"random_state": 0, "n_init": 1}}, None,
      task="any", feat=False, sw="r", cluster=True),
    E("ProbCover", "ProbCover",
      {"cluster_algo_dict": {"random_state": 0, "n_init": 1}}, None,
      task="clf", feat=False, sw=None, cluster=True,
      alt=[{"deltas": ("$np", [1.0, 0.4, 2.0, 0.2]), "n_classes": 2},
           {"deltas": [0.5, 1.5, 1.0], "alpha": 0.9}]),
    E("Badge", "Badge", {}, ("clf", "pwc"), sw=None, sel="sample"),
    E("Badge[lr]", "Badge", {}, ("clf", "lr"), sw=None, sel="sample",
      weight=0.3),
    E("ContrastiveAL", "ContrastiveAL", {}, ("clf", "pwc"), sw="full",
      arb_idx=True, alt=[{"nearest_neighbors_dict": {"n_neighbors": 2}}]),
    E("Clue", "Clue",
      {"cluster_algo_dict": {"random_state": 0, "n_init": 1}},
      ("clf", "pwc"), feat=False, sw=None, cluster=True),
    E("DropQuery", "DropQuery",
      {"cluster_algo_dict": {"random_state": 0, "n_init": 1}},
      ("clf", "pwc"), feat=False, sw=None, cluster=True),
    E("Falcun", "Falcun", {}, ("clf", "pwc"), sw=None, sel="sample",
      alt=[{"gamma": 0}, {"gamma": 1}, {"gamma": 0.5}]),
    E("GreedySamplingX", "GreedySamplingX", {}, None, task="any",
      sw="row0", arb_idx=True,
      alt=[{"metric": "cityblock"},
           {"metric": "euclidean", "metric_dict": {}}]),
    E("GreedySamplingTarget[GSi]", "GreedySamplingTarget", {"method": "GSi"},
      ("reg", "nic"), task="reg", sw="row0", arb_idx=True),
    E("GreedySamplingTarget[GSy]", "GreedySamplingTarget", {"method": "GSy"},
      ("reg", "tree"), task="reg", sw="row0", arb_idx=True),
    E("ExpectedModelChangeMaximization", "ExpectedModelChangeMaximization",
      {}, ("reg", "lin"), task="reg", sw="r", arb_idx=True),
    E("ExpectedModelOutputChange", "ExpectedModelOutputChange", {},
      ("reg", "nic"), task="reg", sw="full", arb_idx=True, weight=0.5),
    E("ExpectedModelVarianceReduction", "ExpectedModelVarianceReduction", {},
      ("reg", "nic"), task="reg", sw="full", arb_idx=True, weight=0.5,
      alt=[{"integration_dict": {"method": "assume_linear"}},
           {"integration_dict": {"method": "monte_carlo",
                                 "n_integration_samples": 4}}]),
    E("KLDivergenceMaximization", "KLDivergenceMaximization", {},
      ("reg", "nic"), task="reg", sw="full", arb_idx=True, weight=0.4,
      alt=[{"integration_dict_target_val": {"method": "assume_linear"},
            "integration_dict_cross_entropy": {
                "method": "gauss_hermite", "n_integration_samples": 3}},
           {"integration_dict_target_val": {"method": "assume_linear"},
            "integration_dict_cross_entropy": {
                "method": "monte_carlo", "n_integration_samples": 4}},
           {"integration_dict_target_val": {
               "method": "monte_carlo", "n_integration_samples": 4}}]),
    E("RegressionTreeBasedAL[random]", "RegressionTreeBasedAL",
      {"method": "random"}, ("reg", "tree"), task="reg", sw=None),
    E("RegressionTreeBasedAL[diversity]", "RegressionTreeBasedAL",
      {"method": "diversity"}, ("reg", "tree"), task="reg", sw=None),
    E("RegressionTreeBasedAL[representativity]", "RegressionTreeBasedAL",
      {"method": "representativity"}, ("reg", "tree"), task="reg", sw=None),
]

# Wrappers are described by the inner entry they wrap (C01/C02/C20).
WRAPPER_ENTRIES = [
    dict(name="SubSampling[US,int]", wrapper="SubSamplingWrapper",
         inner="US[least_confident]",
         init={"max_candidates": "$int", "exclude_non_subsample": False}),
    dict(name="SubSampling[US,float,exclude]", wrapper="SubSamplingWrapper",
         inner="US[entropy]",
         init={"max_candidates": "$float", "exclude_non_subsample": True}),
    dict(name="SubSampling[Random,float]", wrapper="SubSamplingWrapper",
         inner="RandomSampling",
         init={"max_candidates": "$float", "exclude_non_subsample": False}),
    dict(name="SubSampling[CoreSet,int,exclude]",
         wrapper="SubSamplingWrapper", inner="CoreSet",
         init={"max_candidates": "$int", "exclude_non_subsample": True}),
    dict(name="Parallel[US]", wrapper="ParallelUtilityEstimationWrapper",
         inner="US[margin_sampling]",
         init={"n_jobs": "$n_jobs",
               "parallel_dict": {"backend": "threading"}}),
    dict(name="Parallel[PAL]", wrapper="ParallelUtilityEstimationWrapper",
         inner="ProbabilisticAL",
         init={"n_jobs": "$n_jobs",
               "parallel_dict": {"backend": "threading"}}),
]

# strategies whose query evaluates on / allocates from the unlabeled samples
# of (X, y) and documents a rejection when there is none
NEEDS_UNLABELED = {"ExpectedModelOutputChange",
                   "ExpectedModelVarianceReduction",
                   "KLDivergenceMaximization", "RegressionTreeBasedAL"}

# strategies that work with any SkactivemlClassifier (predict_proba only)
ANY_CLF = {"UncertaintySampling", "ContrastiveAL", "Clue", "DropQuery",
           "Falcun", "Badge"}

BY_NAME = {e["name"]: e for e in POOL_ENTRIES}
WRAP_BY_NAME = {e["name"]: e for e in WRAPPER_ENTRIES}

NON_STRATEGY_EXPORTS = {
    "multiannotator", "utils", "cost_reduction", "uncertainty_scores",
    "expected_average_precision", "average_kl_divergence", "vote_entropy",
    "variation_ratios", "batch_bald", "k_greedy_center",
}


def check_registry_complete():
    import skactiveml.pool as pool
    import inspect
    have = {e["cls"] for e in POOL_ENTRIES} | {e["wrapper"]
                                               for e in WRAPPER_ENTRIES}
    missing = []
    for name in pool.__all__:
        if name in NON_STRATEGY_EXPORTS:
            continue
        obj = getattr(pool, name)
        if inspect.isclass(obj) and name not in have:
            missing.append(name)
    if missing:
        raise HarnessError(
            f"pool strategies missing from the registry: {missing}")


# -------------------------------------------------------------- builders ----
def is_wrapper(name):
    return name in WRAP_BY_NAME


def entry_of(name):
    if name in BY_NAME:
        return BY_NAME[name]
    if name in WRAP_BY_NAME:
        return WRAP_BY_NAME[name]
    raise HarnessError(f"unknown registry entry {name}")


def base_entry(name):
    """The entry that determines data/model requirements."""
    e = entry_of(name)
    return BY_NAME[e["inner"]] if "wrapper" in e else e


def build_data(case):
    """-> dict(X, y, classes, missing, task)"""
    ent = base_entry(case["entry"])
    X = np.array(case["X"], dtype=float)
    ai = case.get("opts", {}).get("alt_init")
    if ai is not None and ent["alt"] and ent["cls"] == "Quire" and \
            ent["alt"][int(ai) % len(ent["alt"])].get("metric") \
            == "precomputed":
        # the caller passes the (n, n) kernel matrix instead of features
        d2 = ((X[:, None, :] - X[None, :, :]) ** 2).sum(-1)
        X = np.exp(-0.5 * d2)
    task = ent["task"]
    if task == "any":
        task = case.get("task", "clf")
    if task == "reg":
        y, missing = encode_targets(case["yid"], case.get("enc",
                                                          "float_nan"))
        classes = None
    else:
        y, classes, missing = encode_labels(case["yid"],
                                            case.get("enc", "float_nan"),
                                            case.get("K", 2))
    return dict(X=X, y=y, classes=classes, missing=missing, task=task)


def _resolve_init(init, classes, K, opts):
    out = {}
    for k, v in init.items():
        if v == "$classes":
            out[k] = list(classes) if classes is not None else [0, 1]
        elif v == "$cost":
            out[k] = np.array(CM2 if K == 2 else CM3)
        elif v == "$int":
            out[k] = int(opts.get("max_candidates_int", 3))
        elif v == "$float":
            out[k] = float(opts.get("max_candidates_float", 0.5))
        elif v == "$n_jobs":
            out[k] = int(opts.get("n_jobs", 2))
        elif isinstance(v, tuple) and len(v) == 2 and v[0] == "$np":
            out[k] = np.array(v[1], dtype=float)
        elif isinstance(v, dict):
            out[k] = dict(v)
        else:
            out[k] = v
    return out


def build_strategy(name, data, case, seed=None, defaults=False):
    """-> (strategy, query_kwargs without X/y/candidates/batch_size)"""
    import skactiveml.pool as pool
    opts = case.get("opts", {})
    seed = case["seed"] if seed is None else seed
    e = entry_of(name)
    if "wrapper" in e:
        inner, qk = build_strategy(e["inner"], data, case, seed=seed)
        init = _resolve_init(e["init"], data["classes"], case.get("K", 2),
                             opts)
        qs = getattr(pool, e["wrapper"])(
            query_strategy=inner, missing_label=data["missing"],
            random_state=seed, **init)
        return qs, qk
    init_spec = dict(e["init"])
    ai = opts.get("alt_init")
    if ai is not None and e["alt"]:
        init_spec.update(e["alt"][int(ai) % len(e["alt"])])
    init = _resolve_init(init_spec, data["classes"], case.get("K", 2), opts)
    if defaults:
        # all-defaults configuration: only mandatory / structural params
        init = {k: v for k, v in init.items()
                if k in ("classes",)}
    cls = getattr(pool, e["cls"])
    qs = cls(missing_label=data["missing"], random_state=seed, **init)
    qk = {}
    m = e["model"]
    if m is not None:
        kind, key = m
        key = opts.get("model_key", key)
        if kind == "clf":
            qk["clf"] = make_clf(key, data["classes"], data["missing"], opts)
        elif kind == "ensemble":
            qk["ensemble"] = make_ensemble(key, data["classes"],
                                           data["missing"], opts)
        elif kind == "reg_ensemble":
            qk["ensemble"] = make_reg(key, data["missing"], opts)
        elif kind == "reg":
            qk["reg"] = make_reg(key, data["missing"], opts)
        elif kind == "discriminator":
            from skactiveml.classifier import ParzenWindowClassifier
            if opts.get("disc_preconfigured"):
                # a caller that already set the discriminator up for the
                # labeled (0) vs. unlabeled (1) task
                qk["discriminator"] = ParzenWindowClassifier(
                    classes=[0, 1], missing_label=-1,
                    metric_dict={"gamma": opts.get("gamma", 1.0)},
                    random_state=0)
            else:
                qk["discriminator"] = ParzenWindowClassifier(
                    metric_dict={"gamma": opts.get("gamma", 1.0)},
                    random_state=0)
    sw = opts.get("sample_weight")
    if sw is not None and e["sample_weight"]:
        qk["sample_weight"] = np.array(sw, dtype=float)
    uw = opts.get("utility_weight")
    if uw is not None and e["utility_weight"]:
        qk["utility_weight"] = np.array(uw, dtype=float)
    return qs, qk


def build_candidates(case):
    c = case["cand"]
    if c["mode"] == "none":
        return None
    if c["mode"] == "idx":
        return np.array(c["value"], dtype=int)
    return np.array(c["value"], dtype=float)


def candidate_set(case, data):
    """Reference candidate index set (in the index space of the result) and
    the number of columns of the utilities."""
    from skactiveml.utils import is_unlabeled  # only for documentation
    c = case["cand"]
    yid = case["yid"]
    n = len(yid)
    if c["mode"] == "none":
        return [i for i in range(n) if yid[i] is None], n
    if c["mode"] == "idx":
        return sorted(set(int(i) for i in c["value"])), n
    return list(range(len(c["value"]))), len(c["value"])
