"""C13 - fit is history-free and never rewrites constructor parameters.

One object per case is driven through a generated operation sequence over
data sets of DIFFERENT feature scale (0.1 / 1 / 10) and size:

* estimators: fit(D_i), partial_fit(rows of D_i) (where offered), predict /
  predict_proba / predict_freq on a fixed probe set;
* stream strategies and budget managers: query / step (= query + update);
* pool strategies with caches: query(D_i).

After EVERY call
  (1) get_params(deep=True) must equal, by value, the snapshot taken right
      after construction, and every dict the caller handed in (metric_dict,
      cluster_algo_dict, dist_func_dict, solver_dict, ...) must still have
      its original content;
after every fit(D)
  (2) the predictions on the probe set equal those of
      clone(pristine).fit(D), pristine being a never-used twin built from the
      same config;
after every partial_fit
  (3) they equal a fresh clone that replays the calls since the last fit
      (everything before the last fit is forgotten), and - for the wrappers
      around scikit-learn estimators - the wrapped estimator driven directly
      through the same labeled batches;
SlidingWindowClassifier
  (4) a Python list model of the last `window_size` (X, y, w) triples after
      the `only_labeled` filter (fit resets, partial_fit appends); after
      every fit / partial_fit predict_proba equals the wrapped classifier
      cloned and fitted on exactly that window;
pool strategies
  (5) the utilities of a query on D equal those of a fresh clone querying D
      (ProbCover: only when the call recomputes its cache, i.e. the first
      query or update=True, which is what its contract promises).
"""
import copy
import inspect
import math

import numpy as np
from hypothesis import strategies as st

from ..common import (DIFF, CallTimeout, Outcome, Violation, arr_close,
                      arr_equal_exact, exc_violation, guarded, snapshot,
                      snapshot_diff)

PROPERTY_ID = "C13"
TECHNIQUE = ("Hypothesis-generated operation sequences (fit / partial_fit / "
             "predict* / query / update over data sets of different scale "
             "and size) on one object, checked after every call against "
             "(a) the by-value snapshot of get_params(deep=True) and of the "
             "caller-owned dicts taken at construction, (b) a fresh clone "
             "fitted on the same data / replaying the calls since the last "
             "fit, (c) reference models: a list model of the sliding window "
             "and the wrapped scikit-learn estimator driven directly")
RULE = (
    "Case = component config (6 classifiers, 4 regressors with every "
    "symbolic default: gamma='mean', metric_dict=None, mixture_model=None, "
    "classes=None, budget=None, budget_manager=None; 7 budget managers; 13 "
    "stream strategies; ProbCover / EpistemicUncertaintySampling("
    "precompute=True) / ProbabilisticAL(rbf)) x 2-3 data sets with feature "
    "scales drawn without replacement from {0.1, 1, 10}, 3-9 rows each, "
    "1-2 features, NaN labels x probe set (rows near every data set) x op "
    "list (1-9 ops). Distinct = distinct case hash. Non-trivial = two "
    "training calls (fit; partial_fit for incremental learners) on two "
    "different data sets (hence different feature variance) with a "
    "predict-type op in between; pool: two queries on different data "
    "sets; stream: an update followed by a later query (strategies with a "
    "classifier: on another training set).")
RULE += (" Further generated dimensions (added while closing seeded "
         "changes): " + 'set_params between two fits (window_size, only_labeled, n_neighbors, class_prior); wrappers around an estimator the caller trained already (constructor estimator must stay untouched); histories mixing weighted and unweighted calls' + ".")
ASSUMPTIONS = [
    "random_state is an int everywhere (estimator, wrapped estimators, "
    "mixture models, KMeans), so both sides of every comparison are "
    "deterministic",
    "classes=None is only combined with data sets that contain at least one "
    "label (documented ValueError otherwise) and never with partial_fit "
    "(the wrapped estimators need the full class list on the first call)",
    "MixtureModelClassifier data sets have >= 3 rows (n_components <= 3)",
    "GaussianProcessRegressor is driven without sample_weight (its fit has "
    "no such parameter)",
    "NICKernelRegressor / NadarayaWatsonRegressor: metric_dict None or "
    "numeric gamma only - gamma='mean' is documented for the Parzen window "
    "classifier only",
    "SlidingWindowClassifier: the wrapped classifier always declares "
    "`classes`; weights are given on all calls or on none, except in the "
    "separately labelled class weights=mixed where only 'no exception' and "
    "parameter invariance are asserted once the calls disagree",
    "ProbCover is queried with update=True whenever X differs from the "
    "previous query (its cache is documented as one X per object)",
    "cognitive stream strategies are updated with chunks of one instance "
    "and only with the indices their own query returned (C10 finding for "
    "larger chunks / inconsistent indices); all other stream components "
    "also get stand-alone update calls, including before the first query",
    "pool utilities are compared on the first batch row only (later rows "
    "depend on the tie-break of the earlier picks)",
    "an exception of fit / partial_fit / pool query is a C13 violation only "
    "if a fresh clone accepts the very same single call (history "
    "dependence), an exception of the predictions after a training call "
    "only if a fresh clone replaying the calls since the last fit can "
    "predict; if the fresh clone raises the same exception type the case is "
    "labelled rejected_by_fresh_object_too and ends (seen: sklearn's mixture "
    "model refusing collapsed data, NICKernelRegressor rejecting all-zero "
    "weights of an unlabeled data set, SklearnRegressor(SGDRegressor)."
    "predict after a fit without labels, ParzenWindowClassifier(gamma="
    "'mean') on an empty sliding window) - other properties own those",
    "an estimator object passed as a parameter is compared through its "
    "complete __dict__: fitting the caller's estimator in place counts as "
    "a change of what get_params reports",
]
PROFILE = {
    "quick": dict(examples=1400, shards=16, budget_s=90),
    "thorough": dict(examples=12000, shards=16, budget_s=1100),
}

SCALES = [0.1, 1.0, 10.0]
NAN = float("nan")


# ======================================================================
# component builders (plain config -> live object + caller-owned dicts)
# ======================================================================
class _Owned:
    """Dicts handed to a constructor, with a deep copy taken before."""

    def __init__(self):
        self.items = []  # (param_key, dict object, deep copy)

    def give(self, key, d):
        if d is None:
            return None
        d = copy.deepcopy(d)
        self.items.append((key, d, copy.deepcopy(d)))
        return d


def _classes(cfg, K):
    return list(range(K)) if cfg.get("classes_given", True) else None


def _sk_classifier(name, warm, seed):
    if name == "GaussianNB":
        from sklearn.naive_bayes import GaussianNB
        return GaussianNB()
    if name == "LogisticRegression":
        from sklearn.linear_model import LogisticRegression
        return LogisticRegression(max_iter=4, warm_start=bool(warm),
                                  random_state=seed)
    if name == "SGDClassifier":
        from sklearn.linear_model import SGDClassifier
        return SGDClassifier(loss="log_loss", max_iter=4, tol=None,
                             warm_start=bool(warm), random_state=seed)
    raise ValueError(name)


def _sk_regressor(name, warm, seed):
    if name == "LinearRegression":
        from sklearn.linear_model import LinearRegression
        return LinearRegression()
    if name == "DecisionTreeRegressor":
        from sklearn.tree import DecisionTreeRegressor
        return DecisionTreeRegressor(random_state=seed)
    if name == "SGDRegressor":
        from sklearn.linear_model import SGDRegressor
        return SGDRegressor(max_iter=4, tol=None, warm_start=bool(warm),
                            random_state=seed)
    if name == "BayesianRidge":
        from sklearn.linear_model import BayesianRidge
        return BayesianRidge()
    if name == "GaussianProcessRegressor":
        from sklearn.gaussian_process import GaussianProcessRegressor
        return GaussianProcessRegressor(random_state=seed)
    raise ValueError(name)


def _build_estimator(comp, K, owned=None, prefix=""):
    """-> (object, _Owned)."""
    owned = owned if owned is not None else _Owned()
    kind, cfg = comp["kind"], comp["cfg"]
    seed = int(comp.get("seed", 0))
    if kind == "ParzenWindowClassifier":
        from skactiveml.classifier import ParzenWindowClassifier
        obj = ParzenWindowClassifier(
            n_neighbors=cfg.get("n_neighbors"),
            metric_dict=owned.give(prefix + "metric_dict",
                                   cfg.get("metric_dict")),
            class_prior=cfg.get("class_prior", 0.0),
            classes=_classes(cfg, K), random_state=seed)
    elif kind == "MixtureModelClassifier":
        from skactiveml.classifier import MixtureModelClassifier
        mm = None
        if cfg.get("mixture") == "GM":
            from sklearn.mixture import GaussianMixture
            mm = GaussianMixture(n_components=2, random_state=0)
        obj = MixtureModelClassifier(
            mixture_model=mm, weight_mode=cfg.get("weight_mode",
                                                  "responsibilities"),
            class_prior=cfg.get("class_prior", 0.0),
            classes=_classes(cfg, K), random_state=seed)
    elif kind == "SklearnClassifier":
        from skactiveml.classifier import SklearnClassifier
        obj = SklearnClassifier(
            _sk_classifier(cfg["est"], cfg.get("warm_start"), seed),
            classes=_classes(cfg, K), random_state=seed)
    elif kind == "SlidingWindowClassifier":
        from skactiveml.classifier import SlidingWindowClassifier
        inner, _ = _build_estimator(cfg["inner"], K, owned,
                                    prefix="estimator__")
        obj = SlidingWindowClassifier(
            inner, classes=list(range(K)),
            window_size=cfg.get("window_size"),
            only_labeled=bool(cfg.get("only_labeled")), random_state=seed)
    elif kind == "AnnotatorEnsembleClassifier":
        from skactiveml.classifier.multiannotator import (
            AnnotatorEnsembleClassifier)
        ests = []
        for i, m in enumerate(cfg["members"]):
            e, _ = _build_estimator(m, K, owned, prefix=f"m{i}__")
            ests.append((f"m{i}", e))
        obj = AnnotatorEnsembleClassifier(
            estimators=ests, voting=cfg.get("voting", "hard"),
            classes=list(range(K)), random_state=seed)
    elif kind == "AnnotatorLogisticRegression":
        from skactiveml.classifier.multiannotator import (
            AnnotatorLogisticRegression)
        obj = AnnotatorLogisticRegression(
            n_annotators=cfg.get("n_annotators"),
            max_iter=cfg.get("max_iter", 3),
            solver_dict=owned.give(prefix + "solver_dict",
                                   cfg.get("solver_dict")),
            classes=_classes(cfg, K), random_state=seed)
    elif kind in ("NICKernelRegressor", "NadarayaWatsonRegressor"):
        from skactiveml import regressor
        obj = getattr(regressor, kind)(
            metric_dict=owned.give(prefix + "metric_dict",
                                   cfg.get("metric_dict")),
            random_state=seed)
    elif kind in ("SklearnRegressor", "SklearnNormalRegressor"):
        from skactiveml import regressor
        obj = getattr(regressor, kind)(
            _sk_regressor(cfg["est"], cfg.get("warm_start"), seed),
            random_state=seed)
    else:
        raise ValueError(f"unknown estimator kind {kind!r}")
    return obj, owned


# ---- stream components: a few configurations of each kind ---------------
_BM = {
    "FixedUncertaintyBudgetManager": [
        dict(classes=[0, 1], w=5, budget=0.3), dict(classes=[0, 1])],
    "VariableUncertaintyBudgetManager": [
        dict(theta=1.0, s=0.1, w=5, budget=0.5), dict()],
    "RandomVariableUncertaintyBudgetManager": [
        dict(delta=0.5, theta=0.8, s=0.1, w=5, budget=0.5), dict()],
    "SplitBudgetManager": [
        dict(v=0.5, theta=1.0, s=0.1, w=5, budget=0.5), dict()],
    "RandomBudgetManager": [dict(w=5, budget=0.5), dict()],
    "DensityBasedSplitBudgetManager": [
        dict(theta=1.0, s=0.1, delta=0.5, budget=0.5), dict()],
    "BalancedIncrementalQuantileFilter": [
        dict(w=5, w_tol=2, budget=0.5), dict()],
}
_COG = [dict(force_full_budget=False, density_threshold=1,
             cognition_window_size=5, budget=0.5),
        dict(force_full_budget=True, density_threshold=0,
             cognition_window_size=2, dist_func_dict={}),
        dict()]
_QS = {
    "StreamRandomSampling": [dict(allow_exceeding_budget=False, budget=0.5),
                             dict()],
    "PeriodicSampling": [dict(budget=0.5), dict()],
    "FixedUncertainty": [dict(classes=[0, 1], budget=0.5),
                         dict(classes=[0, 1]),
                         dict(classes=[0, 1], budget=0.5,
                              bm="FixedUncertaintyBudgetManager")],
    "VariableUncertainty": [dict(budget=0.5), dict(),
                            dict(budget=0.5,
                                 bm="VariableUncertaintyBudgetManager")],
    "RandomVariableUncertainty": [
        dict(budget=0.5), dict(),
        dict(budget=0.5, bm="RandomVariableUncertaintyBudgetManager")],
    "Split": [dict(budget=0.5), dict(),
              dict(budget=0.5, bm="SplitBudgetManager")],
    "StreamProbabilisticAL": [
        dict(metric=None, budget=0.5),
        dict(metric="rbf", metric_dict=None, budget=0.5),
        dict(metric="rbf", metric_dict={"gamma": "mean"}),
        dict(metric="rbf", metric_dict={"gamma": 0.5}, prior=1.0, m_max=2),
        dict(metric="rbf", metric_dict=None,
             bm="BalancedIncrementalQuantileFilter")],
    "StreamDensityBasedAL": [dict(window_size=5, budget=0.5), dict(),
                             dict(window_size=2, dist_func_dict={},
                                  bm="DensityBasedSplitBudgetManager")],
    "CognitiveDualQueryStrategy": _COG,
    "CognitiveDualQueryStrategyRan": _COG,
    "CognitiveDualQueryStrategyFixUn": [
        dict(c, classes=[0, 1]) for c in _COG],
    "CognitiveDualQueryStrategyVarUn": _COG,
    "CognitiveDualQueryStrategyRanVarUn": _COG,
}
_NO_CLF = ("StreamRandomSampling", "PeriodicSampling")
_DICT_PARAMS = ("metric_dict", "dist_func_dict", "cluster_algo_dict",
                "solver_dict")


def _build_manager(name, cfg, seed, owned, prefix=""):
    import skactiveml.stream.budgetmanager as B
    cls = getattr(B, name)
    kw = {k: copy.deepcopy(v) for k, v in cfg.items()}
    if "random_state" in inspect.signature(cls.__init__).parameters:
        kw["random_state"] = seed
    return cls(**kw)


def _build_stream(comp, owned=None):
    owned = owned if owned is not None else _Owned()
    name, seed = comp["name"], int(comp.get("seed", 0))
    if comp["kind"] == "manager":
        return _build_manager(name, _BM[name][comp["variant"]], seed,
                              owned), owned
    import skactiveml.stream as S
    cfg = dict(_QS[name][comp["variant"]])
    bm = cfg.pop("bm", None)
    kw = {}
    for k, v in cfg.items():
        kw[k] = owned.give(k, v) if k in _DICT_PARAMS else copy.deepcopy(v)
    if bm is not None:
        bcfg = dict(_BM[bm][0])
        if "budget" in kw:
            bcfg["budget"] = kw["budget"]
        kw["budget_manager"] = _build_manager(bm, bcfg, seed + 1, owned)
    kw["random_state"] = seed
    return getattr(S, name)(**kw), owned


def _build_pool(comp, owned=None):
    owned = owned if owned is not None else _Owned()
    from skactiveml import pool
    name, cfg, seed = comp["name"], comp["cfg"], int(comp.get("seed", 0))
    if name == "ProbCover":
        obj = pool.ProbCover(
            n_classes=cfg.get("n_classes"),
            cluster_algo_dict=owned.give(
                "cluster_algo_dict", {"random_state": 0, "n_init": 1}),
            random_state=seed)
    elif name == "EpistemicUncertaintySampling":
        obj = pool.EpistemicUncertaintySampling(precompute=True,
                                                random_state=seed)
    elif name == "ProbabilisticAL":
        obj = pool.ProbabilisticAL(
            metric=cfg.get("metric"), m_max=cfg.get("m_max", 1),
            metric_dict=owned.give("metric_dict", cfg.get("metric_dict")),
            random_state=seed)
    else:
        raise ValueError(name)
    return obj, owned


def _build(case):
    fam = case["family"]
    if fam == "estimator":
        return _build_estimator(case["component"], case["K"])
    if fam == "stream":
        return _build_stream(case["component"])
    return _build_pool(case["component"])


# ---- labels for signatures / class distribution --------------------------
def _md_tag(md, none_tag="metric_dict=None"):
    if md is None:
        return none_tag
    return "gamma=mean" if md.get("gamma") == "mean" else "gamma=fixed"


def _est_label(comp):
    kind, cfg = comp["kind"], comp["cfg"]
    if kind in ("SklearnClassifier", "SklearnRegressor",
                "SklearnNormalRegressor"):
        return f"{kind}[{cfg['est']}]"
    if kind == "SlidingWindowClassifier":
        i = cfg["inner"]
        return f"{kind}[{i['cfg'].get('est', 'PWC')}]"
    if kind == "AnnotatorEnsembleClassifier":
        return f"{kind}[{cfg.get('voting', 'hard')}]"
    return kind


def _est_cfg_tag(comp):
    kind, cfg = comp["kind"], comp["cfg"]
    if kind in ("ParzenWindowClassifier", "NICKernelRegressor",
                "NadarayaWatsonRegressor"):
        return _md_tag(cfg.get("metric_dict"))
    if kind == "MixtureModelClassifier":
        return ("mixture_model=None" if cfg.get("mixture") is None
                else "mixture_model=given")
    if kind in ("SklearnClassifier", "SklearnRegressor",
                "SklearnNormalRegressor"):
        return "warm_start" if cfg.get("warm_start") else "plain"
    if kind == "SlidingWindowClassifier":
        return _est_cfg_tag(cfg["inner"])
    if kind == "AnnotatorEnsembleClassifier":
        return _est_cfg_tag(cfg["members"][0])
    if kind == "AnnotatorLogisticRegression":
        return ("solver_dict=None" if cfg.get("solver_dict") is None
                else "solver_dict=given")
    return "plain"


def _component_label(case):
    comp = case["component"]
    if case["family"] == "estimator":
        return _est_label(comp)
    name = comp["name"]
    if case["family"] == "stream":
        if comp["kind"] == "manager":
            return name
        cfg = _QS[name][comp["variant"]]
    else:
        cfg = comp["cfg"]
    if name in ("StreamProbabilisticAL", "ProbabilisticAL"):
        return f"{name}[{'rbf' if cfg.get('metric') else 'freq'}]"
    return name


def _cfg_tag(case):
    comp = case["component"]
    if case["family"] == "estimator":
        return _est_cfg_tag(comp)
    name = comp["name"]
    if case["family"] == "stream":
        cfg = (_BM if comp["kind"] == "manager" else _QS)[name][
            comp["variant"]]
    else:
        cfg = comp["cfg"]
    if name in ("StreamProbabilisticAL", "ProbabilisticAL"):
        if cfg.get("metric") is None:
            return "metric=None"
        return _md_tag(cfg.get("metric_dict"))
    tags = []
    if "budget" not in cfg and case["family"] == "stream":
        tags.append("budget=None")
    if cfg.get("bm"):
        tags.append("budget_manager=given")
    return "&".join(tags) or "plain"


# ======================================================================
# generators
# ======================================================================
def _r(v, nd=4):
    return round(float(v), nd)


@st.composite
def _rows(draw, n, d, scale):
    regime = draw(st.sampled_from(["cont", "cont", "lattice"]))
    if regime == "cont":
        el = st.floats(-2, 2, allow_nan=False).map(lambda v: round(v, 2))
    else:
        el = st.integers(-2, 2).map(float)
    rows = draw(st.lists(st.lists(el, min_size=d, max_size=d),
                         min_size=n, max_size=n))
    return [[_r(v * scale) for v in r] for r in rows]


@st.composite
def _dataset(draw, d, scale, task, K, n_min=3, n_max=9, annotators=0,
             need_label=True, binary_full=False):
    n = draw(st.integers(n_min, n_max))
    X = draw(_rows(n, d, scale))
    if task == "reg":
        lab = st.one_of(
            st.floats(-3, 3, allow_nan=False).map(lambda v: round(v, 2)),
            st.floats(-3, 3, allow_nan=False).map(lambda v: round(v, 2)),
            st.just(NAN))
    else:
        cls = st.integers(0, K - 1).map(float)
        lab = st.one_of(cls, cls, cls, st.just(NAN))
    if annotators:
        y = draw(st.lists(st.lists(lab, min_size=annotators,
                                   max_size=annotators),
                          min_size=n, max_size=n))
        flat = [v for r in y for v in r]
    else:
        y = draw(st.lists(lab, min_size=n, max_size=n))
        flat = y
    if need_label and all(math.isnan(v) for v in flat):
        v0 = 0.5 if task == "reg" else 0.0
        if annotators:
            y[0][0] = v0
        else:
            y[0] = v0
    if binary_full and not annotators:
        # both classes labeled and one unlabeled candidate left
        y[0], y[1], y[-1] = 0.0, 1.0, NAN
    wel = st.sampled_from([1.0, 1.0, 0.5, 2.0])
    if annotators:
        w = draw(st.lists(st.lists(wel, min_size=annotators,
                                   max_size=annotators),
                          min_size=n, max_size=n))
    else:
        w = draw(st.lists(wel, min_size=n, max_size=n))
    return {"X": X, "y": y, "w": w, "scale": scale}


@st.composite
def _datasets(draw, d, task, K, **kw):
    n_ds = draw(st.sampled_from([2, 2, 3]))
    scales = draw(st.permutations(SCALES))[:n_ds]
    return [draw(_dataset(d, s, task, K, **kw)) for s in scales]


@st.composite
def _probe(draw, datasets, d):
    rows = []
    for ds in datasets:
        i = draw(st.integers(0, len(ds["X"]) - 1))
        rows.append(list(ds["X"][i]))
        j = draw(st.integers(0, len(ds["X"]) - 1))
        delta = draw(st.sampled_from([0.5, -0.5, 0.1]))
        rows.append([_r(v + delta * ds["scale"]) for v in ds["X"][j]])
    rows.append([_r(draw(st.floats(-2, 2, allow_nan=False)), 2)
                 for _ in range(d)])
    return rows


_MD_PWC = [None, {"gamma": "mean"}, {"gamma": "mean"}, {"gamma": 0.5}]
_MD_NIC = [None, None, {"gamma": 0.5}, {"gamma": 2.0}]


@st.composite
def _pwc_comp(draw, classes_given=None):
    return {"kind": "ParzenWindowClassifier", "seed": draw(st.integers(0, 9)),
            "cfg": {"metric_dict": draw(st.sampled_from(_MD_PWC)),
                    "n_neighbors": draw(st.sampled_from([None, None, 1, 3])),
                    "class_prior": draw(st.sampled_from([0.0, 0.0, 1.0])),
                    "classes_given": (draw(st.booleans())
                                      if classes_given is None
                                      else classes_given)}}


@st.composite
def _skclf_comp(draw, names=("GaussianNB", "LogisticRegression",
                             "SGDClassifier"), classes_given=None):
    name = draw(st.sampled_from(list(names)))
    return {"kind": "SklearnClassifier", "seed": draw(st.integers(0, 9)),
            "cfg": {"est": name,
                    "warm_start": (name != "GaussianNB"
                                   and draw(st.booleans())),
                    "classes_given": (draw(st.integers(0, 3)) > 0
                                      if classes_given is None
                                      else classes_given)}}


@st.composite
def _estimator_component(draw):
    kind = draw(st.sampled_from([
        "ParzenWindowClassifier", "ParzenWindowClassifier",
        "MixtureModelClassifier", "SklearnClassifier", "SklearnClassifier",
        "SlidingWindowClassifier", "SlidingWindowClassifier",
        "AnnotatorEnsembleClassifier", "AnnotatorLogisticRegression",
        "NICKernelRegressor", "NadarayaWatsonRegressor", "SklearnRegressor",
        "SklearnRegressor", "SklearnNormalRegressor"]))
    seed = draw(st.integers(0, 9))
    if kind == "ParzenWindowClassifier":
        return draw(_pwc_comp())
    if kind == "SklearnClassifier":
        return draw(_skclf_comp())
    if kind == "MixtureModelClassifier":
        cfg = {"mixture": draw(st.sampled_from([None, "GM"])),
               "weight_mode": draw(st.sampled_from(
                   ["responsibilities", "similarities"])),
               "class_prior": draw(st.sampled_from([0.0, 1.0])),
               "classes_given": draw(st.booleans())}
    elif kind == "SlidingWindowClassifier":
        inner = draw(st.one_of(
            _pwc_comp(classes_given=True),
            _skclf_comp(names=("GaussianNB",), classes_given=True)))
        cfg = {"inner": inner,
               "window_size": draw(st.sampled_from([None, 1, 2, 3, 5, 8])),
               "only_labeled": draw(st.booleans())}
    elif kind == "AnnotatorEnsembleClassifier":
        mcg = draw(st.booleans())
        cfg = {"voting": draw(st.sampled_from(["hard", "soft"])),
               "members": [draw(_pwc_comp(classes_given=mcg)),
                           draw(_skclf_comp(names=("GaussianNB",),
                                            classes_given=mcg))]}
    elif kind == "AnnotatorLogisticRegression":
        cfg = {"max_iter": draw(st.sampled_from([2, 3])),
               "n_annotators": draw(st.sampled_from([None, 2])),
               "solver_dict": draw(st.sampled_from(
                   [None, {"maxiter": 5}, {"disp": False}, {}])),
               "classes_given": draw(st.booleans())}
    elif kind in ("NICKernelRegressor", "NadarayaWatsonRegressor"):
        cfg = {"metric_dict": draw(st.sampled_from(_MD_NIC))}
    elif kind == "SklearnRegressor":
        name = draw(st.sampled_from(["LinearRegression",
                                     "DecisionTreeRegressor",
                                     "SGDRegressor", "SGDRegressor"]))
        cfg = {"est": name, "warm_start": (name == "SGDRegressor"
                                           and draw(st.booleans()))}
    else:
        cfg = {"est": draw(st.sampled_from(["BayesianRidge",
                                            "GaussianProcessRegressor"]))}
    return {"kind": kind, "seed": seed, "cfg": cfg}


# constructor parameters changed through set_params in the middle of a
# history (cfg key == parameter name)
_SETTABLE = {
    "SlidingWindowClassifier": {"window_size": [None, 1, 2, 3, 5, 8],
                                "only_labeled": [False, True]},
    "ParzenWindowClassifier": {"n_neighbors": [None, 1, 3],
                               "class_prior": [0.0, 1.0]},
}
_REG_KINDS = ("NICKernelRegressor", "NadarayaWatsonRegressor",
              "SklearnRegressor", "SklearnNormalRegressor")
_MULTI = ("AnnotatorEnsembleClassifier", "AnnotatorLogisticRegression")


def _offers_partial_fit(comp):
    kind, cfg = comp["kind"], comp["cfg"]
    if kind == "SlidingWindowClassifier":
        return True
    if kind == "SklearnClassifier":
        return (cfg["est"] in ("GaussianNB", "SGDClassifier")
                and cfg.get("classes_given", True))
    if kind == "SklearnRegressor":
        return cfg["est"] == "SGDRegressor"
    return False


def _weights_ok(comp):
    kind, cfg = comp["kind"], comp["cfg"]
    if kind == "SklearnNormalRegressor":
        return cfg["est"] != "GaussianProcessRegressor"
    return True


def _has_freq(comp):
    kind = comp["kind"]
    if kind in ("ParzenWindowClassifier", "MixtureModelClassifier"):
        return True
    if kind == "SlidingWindowClassifier":
        return _has_freq(comp["cfg"]["inner"])
    return False


@st.composite
def _estimator_case(draw):
    comp = draw(_estimator_component())
    kind = comp["kind"]
    task = "reg" if kind in _REG_KINDS else "clf"
    K = draw(st.sampled_from([2, 2, 3]))
    d = draw(st.sampled_from([1, 2, 2]))
    classes_given = comp["cfg"].get("classes_given", True)
    dss = draw(_datasets(d, task, K, annotators=2 if kind in _MULTI else 0,
                         need_label=True))
    if classes_given and draw(st.integers(0, 7)) == 0:
        # cold start: one data set without any label
        ds = dss[draw(st.integers(0, len(dss) - 1))]
        ds["y"] = [([NAN] * len(r) if isinstance(r, list) else NAN)
                   for r in ds["y"]]
    probe = draw(_probe(dss, d))
    nds = len(dss)
    pf = _offers_partial_fit(comp)
    # "mixed": some calls of a history pass sample_weight, others do not
    wmodes = (["none", "none", "all", "mixed"] if _weights_ok(comp)
              else ["none"])
    weights = draw(st.sampled_from(wmodes))
    dsi = st.integers(0, nds - 1)
    fit = st.fixed_dictionaries({"op": st.just("fit"), "ds": dsi,
                                 "w": st.booleans()})
    nn = st.integers(0, 20)
    part = st.fixed_dictionaries({
        "op": st.just("partial_fit"), "ds": dsi,
        "rows": st.one_of(st.just([0, 20]),  # the whole data set
                          st.tuples(nn, nn).map(list)),
        "w": st.booleans()})
    preds = ["predict"]
    if task == "clf":
        preds.append("predict_proba")
        if _has_freq(comp):
            preds.append("predict_freq")
    pred = st.fixed_dictionaries({"op": st.sampled_from(preds)})
    mix = [fit, pred, part, part, part, part] if pf else [fit, fit, pred]
    free = draw(st.lists(st.one_of(*mix), min_size=0, max_size=6))
    if draw(st.integers(0, 3)) > 0:
        a = draw(dsi)
        b = (a + 1 + draw(st.integers(0, nds - 2))) % nds
        first = ("partial_fit" if pf and draw(st.integers(0, 2)) == 0
                 else "fit")
        head = [{"op": first, "ds": a, "w": draw(st.booleans()),
                 **({"rows": [0, 20]} if first == "partial_fit" else {})},
                draw(pred),
                {"op": "fit", "ds": b, "w": draw(st.booleans())}]
        k = draw(st.integers(0, 2))
        ops = free[:k] + head + free[k:]
    else:
        ops = free or [draw(fit)]
    if kind in _SETTABLE and draw(st.integers(0, 2)) == 0:
        # set_params between two fits: the next fit must follow the NEW
        # parameters exactly like a fresh clone does (always directly
        # followed by a fit - what partial_fit does after set_params is
        # not specified)
        key = draw(st.sampled_from(sorted(_SETTABLE[kind])))
        sp = {"op": "set_params", "key": key,
              "value": draw(st.sampled_from(_SETTABLE[kind][key]))}
        k = draw(st.integers(0, len(ops)))
        ops = ops[:k] + [sp, draw(fit)] + ops[k:]
    case = {"family": "estimator", "component": comp, "K": K, "task": task,
            "datasets": dss, "probe": probe, "weights": weights, "ops": ops}
    if (kind in ("SklearnClassifier", "SklearnRegressor",
                 "SklearnNormalRegressor")
            and draw(st.integers(0, 3)) == 0):
        # the caller hands over an estimator it has already trained
        case["prefit"] = True
    return case


def _stream_pool(shard, nshards):
    """(kind, name) pairs of this shard: the 20 stream components are dealt
    round robin so that every one of them is exercised in every run."""
    allc = ([("strategy", n) for n in sorted(_QS)]
            + [("manager", n) for n in sorted(_BM)])
    if nshards <= 1:
        return allc
    sel = [c for i, c in enumerate(allc) if i % nshards == shard % nshards]
    return sel or allc


@st.composite
def _stream_case(draw, pool=None):
    pool = pool or _stream_pool(0, 1)
    kind, name = draw(st.sampled_from(pool))
    table = _QS if kind == "strategy" else _BM
    variant = draw(st.integers(0, len(table[name]) - 1))
    comp = {"kind": kind, "name": name, "variant": variant,
            "seed": draw(st.integers(0, 9))}
    case = {"family": "stream", "component": comp, "K": 2}
    cognitive = name.startswith("Cognitive")
    if kind == "strategy":
        d = 2
        dss = draw(_datasets(d, "clf", 2, n_min=3, n_max=6))
        case["datasets"] = dss
        nds = len(dss)

        def chunk(mx):
            return st.integers(0, nds - 1).flatmap(
                lambda i: st.integers(1, mx).flatmap(
                    lambda n: _rows(n, d, dss[i]["scale"])))
        mx = 1 if cognitive else 4
        extra = {}
        if name not in _NO_CLF:
            extra = {"train": st.integers(0, nds - 1),
                     "fit_clf": st.booleans()}
        flags = {"queried": st.lists(st.booleans(), min_size=4, max_size=4),
                 "utils": st.lists(st.sampled_from([0.0, 0.1, 0.3, 0.5]),
                                   min_size=4, max_size=4)}
        q = st.fixed_dictionaries({"op": st.just("query"),
                                   "rows": chunk(mx), **extra})
        s = st.fixed_dictionaries({"op": st.just("step"),
                                   "rows": chunk(mx), **extra})
        u = st.fixed_dictionaries({"op": st.just("update"),
                                   "rows": chunk(mx), **flags})
    else:
        ut = st.one_of(st.sampled_from([0.0, 0.25, 0.5, 0.9, 1.0]),
                       st.floats(0, 1, allow_nan=False).map(
                           lambda v: round(v, 3)))
        rows = st.lists(ut, min_size=1, max_size=4)
        q = st.fixed_dictionaries({"op": st.just("query"), "rows": rows})
        s = st.fixed_dictionaries({"op": st.just("step"), "rows": rows})
        u = st.fixed_dictionaries({
            "op": st.just("update"), "rows": rows,
            "queried": st.lists(st.booleans(), min_size=4, max_size=4)})
    if cognitive:
        u = s  # their update is only defined on what query returned (C10)
    case["ops"] = draw(st.lists(st.one_of(s, s, s, q, q, u), min_size=3,
                                max_size=9))
    return case


@st.composite
def _pool_case(draw):
    name = draw(st.sampled_from(["ProbCover", "EpistemicUncertaintySampling",
                                 "ProbabilisticAL", "ProbabilisticAL"]))
    K = 2 if name == "EpistemicUncertaintySampling" else draw(
        st.sampled_from([2, 3]))
    if name == "ProbCover":
        cfg = {"n_classes": draw(st.sampled_from([None, 2]))}
    elif name == "ProbabilisticAL":
        cfg = {"metric": "rbf", "m_max": draw(st.sampled_from([1, 2])),
               "metric_dict": draw(st.sampled_from(
                   [None, {"gamma": "mean"}, {"gamma": 0.5}]))}
    else:
        cfg = {}
    comp = {"name": name, "cfg": cfg, "seed": draw(st.integers(0, 9))}
    d = draw(st.sampled_from([1, 2, 2]))
    dss = draw(_datasets(d, "clf", K, n_min=4, n_max=8, binary_full=True))
    nds = len(dss)
    q = st.fixed_dictionaries({
        "op": st.just("query"), "ds": st.integers(0, nds - 1),
        "batch_size": st.sampled_from([1, 1, 2]),
        "update": st.booleans(),
        "clf_gamma": st.sampled_from([0.5, 1.0])})
    ops = draw(st.lists(q, min_size=2, max_size=5))
    if draw(st.integers(0, 2)) > 0 and ops[0]["ds"] == ops[1]["ds"]:
        ops[1] = dict(ops[1], ds=(ops[0]["ds"] + 1) % nds)
    return {"family": "pool", "component": comp, "K": K, "datasets": dss,
            "ops": ops}


def case_strategy(tier, shard=0, nshards=1):
    stream = _stream_case(pool=_stream_pool(shard, nshards))
    return st.one_of(_estimator_case(), _estimator_case(),
                     _estimator_case(), _estimator_case(),
                     stream, stream, _pool_case())


# ======================================================================
# oracle helpers
# ======================================================================
def _snap(v):
    if isinstance(v, type):
        return ("class", v.__qualname__)
    return snapshot(v)


def _params(obj):
    return {k: _snap(v) for k, v in obj.get_params(deep=True).items()}


def _changed_keys(base, now):
    keys = sorted(k for k in set(base) | set(now)
                  if base.get(k, "<absent>") != now.get(k, "<absent>"))
    # a nested parameter also changes every enclosing object: keep leaves
    return [k for k in keys
            if not any(o != k and o.startswith(k + "__") for o in keys)]


class _ParamWatch:
    """Invariant (1): parameters and caller-owned dicts by value."""

    def __init__(self, comp_label, obj, owned):
        self.comp = comp_label
        self.obj = obj
        self.owned = owned
        self.base = _params(obj)

    def check(self, trigger, where, out):
        ok, now = guarded(_params, self.obj)
        if not ok:
            out.append(exc_violation(self.comp, now, trigger,
                                     f"get_params after {where}"))
            return
        keys = _changed_keys(self.base, now)
        for k in keys:
            d = snapshot_diff(self.base.get(k), now.get(k), path=k, limit=2)
            out.append(Violation(
                self.comp, f"param_changed:{k}", trigger,
                f"get_params(deep=True)[{k!r}] changed during {where}: "
                f"{'; '.join(d) or 'value differs'}"))
        for i, (key, d, orig) in enumerate(self.owned.items):
            if snapshot(d) != snapshot(orig):
                if not any(k == key or key.endswith("__" + k)
                           or k.endswith("__" + key) for k in keys):
                    out.append(Violation(
                        self.comp, f"caller_dict_mutated:{key}", trigger,
                        f"dict passed as {key} was {orig!r}, is {d!r} "
                        f"after {where}"))
                self.owned.items[i] = (key, d, copy.deepcopy(d))
        if keys:
            self.base = now  # one report per write event


def _is_clf(case):
    return case.get("task") == "clf"


def _predictions(obj, case, P):
    """-> (ok, dict name -> array | exception)."""
    comp = case["component"]
    out = {}
    if _is_clf(case):
        calls = [("predict_proba", {}), ("predict", {})]
        if _has_freq(comp):
            calls.append(("predict_freq", {}))
        for name, kw in calls:
            ok, v = guarded(getattr(obj, name), P, **kw)
            if not ok:
                return False, (name, v)
            out[name] = np.asarray(v)
        return True, out
    if comp["kind"] in ("NICKernelRegressor", "NadarayaWatsonRegressor",
                        "SklearnNormalRegressor"):
        ok, v = guarded(obj.predict, P, return_std=True)
        if not ok:
            return False, ("predict(return_std=True)", v)
        out["mean"], out["std"] = np.asarray(v[0]), np.asarray(v[1])
        return True, out
    ok, v = guarded(obj.predict, P)
    if not ok:
        return False, ("predict", v)
    out["predict"] = np.asarray(v)
    return True, out


def _compare(pa, pb):
    """None or a description of the first difference."""
    same_proba = True
    for name in sorted(pa):
        a, b = pa[name], pb[name]
        if name == "predict" and "predict_proba" in pa:
            continue
        if a.shape != b.shape:
            return f"{name}: shape {a.shape} vs {b.shape}"
        if not arr_close(a, b, **DIFF):
            return (f"{name}: {np.round(a, 6).tolist()} vs "
                    f"{np.round(b, 6).tolist()}")
        if not arr_equal_exact(a, b):
            same_proba = False
    if "predict_proba" in pa and same_proba:
        a, b = pa["predict"], pb["predict"]
        if a.shape != b.shape or not arr_equal_exact(a, b):
            return (f"predict (identical probabilities): {a.tolist()} vs "
                    f"{b.tolist()}")
    return None


def _xyw(case, op, use_w):
    ds = case["datasets"][op["ds"]]
    X = np.array(ds["X"], dtype=float)
    y = np.array(ds["y"], dtype=float)
    w = np.array(ds["w"], dtype=float)
    if op["op"] == "partial_fit":
        n = len(X)
        a, b = op["rows"]
        lo = a % n
        hi = n if b >= 20 else lo + 1 + b % (n - lo)
        X, y, w = X[lo:hi], y[lo:hi], w[lo:hi]
    return X, y, (w if use_w else None)


def _train_call(obj, kind, X, y, w):
    fn = getattr(obj, kind)
    if w is None:
        return guarded(fn, X.copy(), y.copy())
    return guarded(fn, X.copy(), y.copy(), sample_weight=w.copy())


# ======================================================================
# estimator family
# ======================================================================
def _run_estimator(case):
    from sklearn.base import clone
    comp = copy.deepcopy(case["component"])  # cfg follows set_params ops
    kind = comp["kind"]
    K = case["K"]
    label = _est_label(comp)
    cfg_tag = _est_cfg_tag(comp)
    obj, owned = _build_estimator(comp, K)
    pristine, _ = _build_estimator(comp, K)
    watch = _ParamWatch(label, obj, owned)
    P = np.array(case["probe"], dtype=float)
    wmode = case["weights"]
    viol = []
    labels = [f"component={label}", f"config={cfg_tag}",
              f"weights={wmode}"]
    is_swc = kind == "SlidingWindowClassifier"
    is_skw = kind in ("SklearnClassifier", "SklearnRegressor")
    if is_swc:
        labels += [f"window_size={comp['cfg'].get('window_size')}",
                   f"only_labeled={bool(comp['cfg'].get('only_labeled'))}"]
    if "classes_given" in comp["cfg"]:
        labels.append(f"classes_given={comp['cfg']['classes_given']}")

    n_fit = 0            # successful training calls so far
    fitted = False
    trained_ds = []      # (op index, ds) of training calls
    pred_ops = []        # op indices of predict-type ops (on a fitted obj)
    segment = []         # training calls since the last fit (inclusive)
    window = []          # SWC list model
    consistent_w = True  # SWC weights=mixed: calls since last fit agree
    seg_w = None
    direct = None        # wrapped sklearn estimator driven directly
    direct_ok = False
    after_sp = None      # parameter changed by set_params since the last fit
    seen = set()

    def add(v):
        if v.signature not in seen:
            seen.add(v.signature)
            viol.append(v)

    def flush(tmp):
        for v in tmp:
            add(v)

    for idx, op in enumerate(case["ops"]):
        name = op["op"]
        if name == "set_params":
            nxt = case["ops"][idx + 1:idx + 2]
            if not nxt or nxt[0]["op"] != "fit":
                continue  # only meaningful directly before a fit
            kw = {op["key"]: op["value"]}
            ok, r = guarded(lambda: obj.set_params(**kw))
            ok2, r2 = guarded(lambda: pristine.set_params(**kw))
            if not ok or not ok2:
                add(exc_violation(label, r if not ok else r2,
                                  f"{cfg_tag}&set_params", "set_params"))
                break
            comp["cfg"][op["key"]] = op["value"]
            watch.base = _params(obj)
            labels.append(f"set_params={op['key']}")
            after_sp = op["key"]
            continue
        if name in ("predict", "predict_proba", "predict_freq"):
            if not fitted:
                continue
            trig = f"{cfg_tag}&{name}"
            ok, r = guarded(getattr(obj, name), P.copy())
            if not ok:
                add(exc_violation(label, r, trig, name))
                break
            pred_ops.append(idx)
            tmp = []
            watch.check(trig, name, tmp)
            flush(tmp)
            continue

        # ---- training call -------------------------------------------
        use_w = (wmode == "all") or (wmode == "mixed" and op.get("w"))
        X, y, w = _xyw(case, op, use_w)
        if name == "fit":
            if n_fit == 0:
                optag = "first_fit"
            elif any(ds != op["ds"] for _, ds in trained_ds):
                optag = "refit_other_data"
            else:
                optag = "refit_same_data"
        else:
            optag = "first_partial_fit" if n_fit == 0 else "later_partial_fit"
        if after_sp and name == "fit":
            optag += f"&after_set_params({after_sp})"
        if name == "fit":
            after_sp = None
        trig = f"{cfg_tag}&{optag}"
        if is_swc and wmode == "mixed":
            if name == "fit":
                consistent_w, seg_w = True, use_w
            else:
                if seg_w is None:
                    seg_w = use_w
                elif seg_w != use_w:
                    consistent_w = False
        ok, r = _train_call(obj, name, X, y, w)
        if not ok:
            t = trig
            if (is_swc and wmode == "mixed" and name == "partial_fit"
                    and use_w and not consistent_w):
                t = "weights=mixed&weighted_partial_fit_after_unweighted_call"
            # C13 is about the HISTORY: the same single call on a fresh
            # clone decides whether the exception is caused by earlier calls
            okc, ref = guarded(clone, pristine)
            ok2, r2 = _train_call(ref, name, X, y, w)
            if not ok2 and type(r2) is type(r) and not isinstance(
                    r, CallTimeout):
                labels.append("rejected_by_fresh_object_too:"
                              f"{type(r).__name__}")
            else:
                add(exc_violation(label, r, t, f"op {idx} {name} (a fresh "
                                  f"clone accepts the same call)"))
            break
        n_fit += 1
        fitted = True
        trained_ds.append((idx, op["ds"]))
        tmp = []
        watch.check(trig, f"op {idx} {name}", tmp)
        flush(tmp)

        if name == "fit":
            segment = [(name, X, y, w)]
        else:
            segment.append((name, X, y, w))

        ok, mine = _predictions(obj, case, P)
        if not ok:
            # history dependent only if a fresh clone that replays the calls
            # since the last fit can predict
            okc, ref = guarded(clone, pristine)
            ok2 = okc
            for (k2, X2, y2, w2) in segment:
                if ok2:
                    ok2, _r = _train_call(ref, k2, X2, y2, w2)
            theirs = None
            if ok2:
                ok2, theirs = _predictions(ref, case, P)
            if (theirs is not None and not ok2
                    and type(theirs[1]) is type(mine[1])
                    and not isinstance(mine[1], CallTimeout)):
                labels.append("rejected_by_fresh_object_too:"
                              f"{type(mine[1]).__name__}")
            else:
                add(exc_violation(label, mine[1], trig,
                                  f"{mine[0]} after op {idx} {name} (fresh "
                                  f"clone: {'ok' if ok2 else 'other error'})"))
            break
        tmp = []
        watch.check(f"{cfg_tag}&predict_after_{optag}",
                    f"predictions after op {idx}", tmp)
        flush(tmp)

        # ---- (2)/(3) fresh clone, replaying the calls since last fit --
        check_replay = (name == "fit") or not is_swc
        if is_swc and wmode == "mixed" and not consistent_w:
            check_replay = False
        if check_replay:
            okc, ref = guarded(clone, pristine)
            if not okc:
                raise RuntimeError(f"clone(pristine) failed: {ref!r}")
            ref_exc = None
            for (k2, X2, y2, w2) in segment:
                ok2, r2 = _train_call(ref, k2, X2, y2, w2)
                if not ok2:
                    ref_exc = r2
                    break
            if ref_exc is not None:
                add(Violation(
                    label, f"fresh_clone_raises:{type(ref_exc).__name__}",
                    trig, f"op {idx}: the used object accepted the call(s) "
                    f"but a fresh clone raised {ref_exc!r}"))
            else:
                ok2, theirs = _predictions(ref, case, P)
                if not ok2:
                    add(Violation(
                        label,
                        f"fresh_clone_raises:{type(theirs[1]).__name__}",
                        trig, f"op {idx}: {theirs[0]} of the fresh clone "
                        f"raised {theirs[1]!r}"))
                else:
                    diff = _compare(mine, theirs)
                    if diff:
                        knd = ("refit_differs_from_fresh_clone"
                               if name == "fit" else
                               "partial_fit_history_differs_from_fresh_clone")
                        add(Violation(label, knd, trig,
                                      f"op {idx} {name} (used object vs "
                                      f"fresh clone): {diff}"))

        # ---- (4) sliding window list model ---------------------------
        if is_swc:
            ws = comp["cfg"].get("window_size")
            rows = [(X[i], y[i], None if w is None else w[i])
                    for i in range(len(X))]
            if comp["cfg"].get("only_labeled"):
                rows = [t for t in rows if not np.isnan(t[1])]
            if name == "fit":
                window = []
            window.extend(rows)
            if ws is not None:
                window = window[-ws:]
            if wmode != "mixed" or consistent_w:
                inner, _ = _build_estimator(comp["cfg"]["inner"], K)
                Xw = (np.array([t[0] for t in window], dtype=float)
                      .reshape(len(window), X.shape[1]))
                yw = np.array([t[1] for t in window], dtype=float)
                ww = (np.array([t[2] for t in window], dtype=float)
                      if use_w else None)
                okm, rm = _train_call(inner, "fit", Xw, yw, ww)
                if okm:
                    okm, pm = guarded(inner.predict_proba, P.copy())
                    rm = pm
                if not okm:
                    add(Violation(
                        label, f"window_model_raises:{type(rm).__name__}",
                        trig, f"op {idx}: wrapped classifier fitted on the "
                        f"model window ({len(window)} rows) raised {rm!r}"))
                else:
                    a, b = mine["predict_proba"], np.asarray(pm)
                    if a.shape != b.shape or not arr_close(a, b, **DIFF):
                        full = ws is not None and len(window) == ws
                        t = (f"{cfg_tag}&{name}&window_"
                             f"{'full' if full else 'not_full'}"
                             f"&only_labeled="
                             f"{bool(comp['cfg'].get('only_labeled'))}")
                        add(Violation(
                            label, "differs_from_fit_on_last_window", t,
                            f"op {idx} {name}: predict_proba "
                            f"{np.round(a, 6).tolist()} vs wrapped "
                            f"classifier fitted on the last {len(window)} "
                            f"rows {np.round(b, 6).tolist()}"))
            labels.append("window_full" if (ws is not None
                                            and len(window) == ws)
                          else "window_not_full")
            if len(window) == 0:
                labels.append("window_empty")

        # ---- (3b) wrapped scikit-learn estimator driven directly -----
        if is_skw:
            lab = ~np.isnan(y)
            Xl, yl = X[lab], y[lab]
            wl = None if w is None else w[lab]
            if kind == "SklearnClassifier":
                yl = yl.astype(int)
            if name == "fit":
                direct = clone(pristine.estimator)
                direct_ok = True
            elif direct is None:
                direct = clone(pristine.estimator)
                direct_ok = True
            if direct_ok:
                kw = {} if wl is None else {"sample_weight": wl}
                if name == "partial_fit" and kind == "SklearnClassifier":
                    kw["classes"] = np.arange(K)
                if len(Xl) == 0:
                    direct_ok = False  # documented fallback branch
                else:
                    okd, rd = guarded(getattr(direct, name), Xl, yl, **kw)
                    direct_ok = okd
            if direct_ok:
                fnm = ("predict_proba" if kind == "SklearnClassifier"
                       else "predict")
                okd, pd_ = guarded(getattr(direct, fnm), P.copy())
                if okd:
                    a = mine[fnm]
                    b = np.asarray(pd_)
                    if np.isnan(b).any():
                        pass  # documented fallback to the label counts
                    elif a.shape == b.shape and not arr_close(a, b, **DIFF):
                        t = (f"{cfg_tag}&{name}&earlier_calls_since_last_fit="
                             f"{'0' if len(segment) == 1 else '1+'}")
                        add(Violation(
                            label, "differs_from_wrapped_estimator_history",
                            t, f"op {idx} {name}: {fnm} "
                            f"{np.round(a, 6).tolist()} vs the wrapped "
                            f"estimator trained directly on the labeled "
                            f"batches since the last fit "
                            f"{np.round(b, 6).tolist()}"))
                    if a.shape == b.shape and not np.isnan(b).any():
                        labels.append("direct_model_compared")

    # ---- classification of the case ----------------------------------
    nontrivial = False
    for i, (ia, da) in enumerate(trained_ds):
        for (ib, db) in trained_ds[i + 1:]:
            if da != db and any(ia < p < ib for p in pred_ops):
                nontrivial = True
    dsu = sorted({ds for _, ds in trained_ds})
    labels.append(f"data_sets_used={len(dsu)}")
    if len(dsu) >= 2:
        sizes = {len(case["datasets"][i]["X"]) for i in dsu}
        labels.append("size_differs" if len(sizes) > 1 else "size_equal")
    nf = sum(1 for o in case["ops"] if o["op"] == "fit")
    npf = sum(1 for o in case["ops"] if o["op"] == "partial_fit")
    labels.append(f"fits={'0' if nf == 0 else '1' if nf == 1 else '2+'}")
    if npf:
        labels.append(f"partial_fits={'1' if npf == 1 else '2+'}")
    if any(all(math.isnan(v) for v in np.ravel(ds["y"]))
           for ds in case["datasets"]):
        labels.append("has_unlabeled_data_set")
    return Outcome(viol, nontrivial, labels)


# ======================================================================
# wrapper around an estimator the caller has trained already: the
# constructor argument (what get_params reports) is the caller's model and
# must stay the caller's model whatever is done with the wrapper
# ======================================================================
def _inner_state(est, P, is_clf):
    fn = "predict_proba" if is_clf and hasattr(est, "predict_proba") \
        else "predict"
    ok, v = guarded(getattr(est, fn), P.copy())
    pred = np.asarray(v) if ok else ("raises", type(v).__name__)
    return pred, snapshot({k: v for k, v in vars(est).items()}, depth=4)


def _run_prefit(case):
    comp = case["component"]
    kind, cfg = comp["kind"], comp["cfg"]
    K = case["K"]
    label = _est_label(comp)
    cfg_tag = _est_cfg_tag(comp) + "&prefit"
    labels = [f"component={label}", f"config={cfg_tag}", "prefit_inner"]
    is_clf = kind == "SklearnClassifier"
    P = np.array(case["probe"], dtype=float)
    seed = int(comp.get("seed", 0))
    inner = (_sk_classifier if is_clf else _sk_regressor)(
        cfg["est"], cfg.get("warm_start"), seed)
    ds = case["datasets"][0]
    X0 = np.array(ds["X"], dtype=float)
    y0 = np.array(ds["y"], dtype=float)
    lab = ~np.isnan(y0)
    if lab.sum() < 2 or (is_clf and len(set(y0[lab].tolist())) < 2):
        labels.append("prefit_skipped:too_few_labels")
        return Outcome([], False, labels)
    ok, r = guarded(inner.fit, X0[lab],
                    y0[lab].astype(int) if is_clf else y0[lab])
    if not ok:
        labels.append(f"prefit_skipped:{type(r).__name__}")
        return Outcome([], False, labels)
    from skactiveml import classifier, regressor
    if is_clf:
        obj = classifier.SklearnClassifier(
            inner, classes=_classes(cfg, K), random_state=seed)
    else:
        obj = getattr(regressor, kind)(inner, random_state=seed)
    ref_pred, ref_vars = _inner_state(copy.deepcopy(inner), P, is_clf)
    wmode = case["weights"]
    viol, seen = [], set()
    trained = 0
    used_before_fit = False
    for idx, op in enumerate(case["ops"]):
        name = op["op"]
        if name in ("predict", "predict_proba", "predict_freq"):
            ok, r = guarded(getattr(obj, name), P.copy())
            if ok and trained == 0:
                used_before_fit = True
            where = f"{name}"
            optag = name if trained else f"{name}_before_any_fit"
        else:
            use_w = (wmode == "all") or (wmode == "mixed" and op.get("w"))
            X, y, w = _xyw(case, op, use_w)
            ok, r = _train_call(obj, name, X, y, w)
            if ok:
                trained += 1
            where = f"op {idx} {name}"
            optag = name + ("_after_use_unfitted" if used_before_fit
                            and trained <= 1 else "")
        if not ok:
            # whether a prefit wrapper accepts the call is not C13's subject
            labels.append(f"prefit_call_rejected:{type(r).__name__}")
            break
        if obj.get_params(deep=False)["estimator"] is not inner:
            v = Violation(label, "param_changed:estimator",
                          f"{cfg_tag}&{optag}",
                          f"get_params()['estimator'] is no longer the "
                          f"object passed to the constructor after {where}")
            if v.signature not in seen:
                seen.add(v.signature)
                viol.append(v)
            break
        pred, vs = _inner_state(inner, P, is_clf)
        same = (vs == ref_vars) and (
            (isinstance(pred, tuple) and pred == ref_pred)
            or (not isinstance(pred, tuple)
                and not isinstance(ref_pred, tuple)
                and pred.shape == ref_pred.shape
                and arr_equal_exact(pred, ref_pred)))
        if not same:
            d = snapshot_diff(ref_vars, vs, path="estimator", limit=2)
            v = Violation(
                label, "constructor_estimator_trained_in_place",
                f"{cfg_tag}&{optag}",
                f"the trained estimator passed to the constructor (and "
                f"reported by get_params) changed during {where}: "
                f"{'; '.join(d) or 'its predictions differ'}")
            if v.signature not in seen:
                seen.add(v.signature)
                viol.append(v)
            break
    if used_before_fit:
        labels.append("prefit_used_before_fit")
    if trained:
        labels.append("prefit_then_trained")
    return Outcome(viol, trained > 0, labels)


# ======================================================================
# stream family: parameter invariance under query / update
# ======================================================================
def _run_stream(case):
    from skactiveml.classifier import ParzenWindowClassifier
    comp = case["component"]
    name, kind = comp["name"], comp["kind"]
    label = _component_label(case)
    cfg_tag = _cfg_tag(case)
    obj, owned = _build_stream(comp)
    watch = _ParamWatch(label, obj, owned)
    viol, seen = [], set()
    labels = [f"component={label}", f"config={cfg_tag}",
              f"variant={comp['variant']}"]

    def add(v):
        if v.signature not in seen:
            seen.add(v.signature)
            viol.append(v)

    n_query = n_update = 0
    updated_before_query = False
    trains_after_update = set()
    train_first = None
    update_first = False
    has_bmpd = (kind == "strategy" and "budget_manager_param_dict"
                in inspect.signature(obj.update).parameters)

    def do_update(idx, chunk, q, utilities):
        nonlocal n_update
        utag = "first_update" if n_update == 0 else "later_update"
        trig = f"{cfg_tag}&{utag}"
        if kind == "manager":
            cand = chunk.reshape(-1, 1)
            if name == "BalancedIncrementalQuantileFilter":
                ok, r2 = guarded(obj.update, cand, q, utilities.copy())
            else:
                ok, r2 = guarded(obj.update, cand, q)
        elif has_bmpd:
            ok, r2 = guarded(
                obj.update, candidates=chunk.copy(), queried_indices=q,
                budget_manager_param_dict={"utilities": utilities})
        else:
            ok, r2 = guarded(obj.update, candidates=chunk.copy(),
                             queried_indices=q)
        if not ok:
            add(exc_violation(label, r2, trig, f"op {idx} update"))
            return False
        n_update += 1
        tmp = []
        watch.check(trig, f"op {idx} update", tmp)
        for v in tmp:
            add(v)
        return True

    for idx, op in enumerate(case["ops"]):
        chunk = np.array(op["rows"], dtype=float)
        if op["op"] == "update":
            # update without a preceding query on this chunk: the caller
            # reports which instances were labeled
            n = len(chunk)
            q = np.array([i for i in range(n) if op["queried"][i]],
                         dtype=int)
            utilities = (chunk if kind == "manager"
                         else np.array(op["utils"][:n], dtype=float))
            if n_query == 0 and n_update == 0:
                update_first = True
            if not do_update(idx, chunk, q, utilities):
                break
            continue
        qtag = "first_query" if n_query == 0 else "later_query"
        trig = f"{cfg_tag}&{qtag}"
        if kind == "manager":
            ok, r = guarded(obj.query_by_utility, chunk.copy())
        elif name in _NO_CLF:
            ok, r = guarded(obj.query, candidates=chunk.copy(),
                            return_utilities=True)
        else:
            ds = case["datasets"][op["train"]]
            X = np.array(ds["X"], dtype=float)
            y = np.array(ds["y"], dtype=float)
            clf = ParzenWindowClassifier(classes=[0, 1], random_state=0)
            if not op["fit_clf"]:
                clf.fit(X, y)
            ok, r = guarded(obj.query, candidates=chunk.copy(), clf=clf,
                            X=X.copy(), y=y.copy(),
                            fit_clf=bool(op["fit_clf"]),
                            return_utilities=True)
            if train_first is None:
                train_first = op["train"]
            if n_update:
                trains_after_update.add(op["train"])
        if not ok:
            add(exc_violation(label, r, trig, f"op {idx} query"))
            break
        if n_update:
            updated_before_query = True
        n_query += 1
        tmp = []
        watch.check(trig, f"op {idx} query", tmp)
        for v in tmp:
            add(v)
        if op["op"] != "step":
            continue
        if kind == "manager":
            q, utilities = r, chunk
        else:
            q, utilities = r
        if not do_update(idx, chunk, q, utilities):
            break
    if update_first:
        labels.append("update_before_first_query")
    if kind == "manager" or name in _NO_CLF:
        nontrivial = updated_before_query
    else:
        nontrivial = updated_before_query and any(
            t != train_first for t in trains_after_update)
    labels += [f"updates={'0' if n_update == 0 else '1' if n_update == 1 else '2+'}",
               f"kind={kind}"]
    return Outcome(viol, nontrivial, labels)


# ======================================================================
# pool family: strategies with caches
# ======================================================================
def _pool_query(obj, name, X, y, op, update):
    from skactiveml.classifier import ParzenWindowClassifier
    kw = dict(batch_size=int(op["batch_size"]), return_utilities=True)
    if name == "ProbCover":
        return guarded(obj.query, X.copy(), y.copy(), update=update, **kw)
    classes = list(range(int(op["K"])))
    clf = ParzenWindowClassifier(classes=classes, random_state=0,
                                 metric_dict={"gamma": op["clf_gamma"]})
    return guarded(obj.query, X.copy(), y.copy(), clf=clf, **kw)


def _run_pool(case):
    from sklearn.base import clone
    comp = case["component"]
    name = comp["name"]
    label = _component_label(case)
    cfg_tag = _cfg_tag(case)
    obj, owned = _build_pool(comp)
    pristine, _ = _build_pool(comp)
    watch = _ParamWatch(label, obj, owned)
    viol, seen = [], set()
    labels = [f"component={label}", f"config={cfg_tag}"]

    def add(v):
        if v.signature not in seen:
            seen.add(v.signature)
            viol.append(v)

    used_ds = []
    for idx, op in enumerate(case["ops"]):
        op = dict(op, K=case["K"])
        ds = case["datasets"][op["ds"]]
        X = np.array(ds["X"], dtype=float)
        y = np.array(ds["y"], dtype=float)
        if not used_ds:
            qtag = "first_query"
        elif any(d != op["ds"] for d in used_ds):
            qtag = "requery_other_data"
        else:
            qtag = "requery_same_data"
        trig = f"{cfg_tag}&{qtag}"
        # ProbCover caches distances_/delta_max_ for ONE X unless update=True
        update = bool(op["update"])
        if name == "ProbCover" and used_ds and used_ds[-1] != op["ds"]:
            update = True
        recomputed = (name != "ProbCover") or update or not used_ds
        ok, r = _pool_query(obj, name, X, y, op, update)
        if not ok:
            okc, ref = guarded(clone, pristine)
            ok2, r2 = _pool_query(ref, name, X, y, op, False)
            if not ok2 and type(r2) is type(r) and not isinstance(
                    r, CallTimeout):
                labels.append("rejected_by_fresh_object_too:"
                              f"{type(r).__name__}")
            else:
                add(exc_violation(label, r, trig, f"op {idx} query (a "
                                  f"fresh clone accepts the same call)"))
            break
        used_ds.append(op["ds"])
        tmp = []
        watch.check(trig, f"op {idx} query", tmp)
        for v in tmp:
            add(v)
        if not recomputed:
            labels.append("probcover_cached_call")
            continue
        okc, ref = guarded(clone, pristine)
        if not okc:
            raise RuntimeError(f"clone(pristine) failed: {ref!r}")
        ok2, r2 = _pool_query(ref, name, X, y, op, False)
        if not ok2:
            add(Violation(label, f"fresh_clone_raises:{type(r2).__name__}",
                          trig, f"op {idx}: fresh clone raised {r2!r}"))
            continue
        a = np.asarray(r[1], dtype=float)[0]
        b = np.asarray(r2[1], dtype=float)[0]
        if a.shape != b.shape or not arr_close(a, b, **DIFF):
            add(Violation(
                label, "utilities_differ_from_fresh_clone", trig,
                f"op {idx}: utilities[0] {np.round(a, 6).tolist()} vs fresh "
                f"clone {np.round(b, 6).tolist()}"))
    nontrivial = len(set(used_ds)) >= 2
    labels.append(f"queries={len(used_ds)}")
    labels.append(f"data_sets_used={len(set(used_ds))}")
    return Outcome(viol, nontrivial, labels)


def run_case(case):
    fam = case["family"]
    if fam == "estimator":
        if case.get("prefit"):
            return _run_prefit(case)
        return _run_estimator(case)
    if fam == "stream":
        return _run_stream(case)
    if fam == "pool":
        return _run_pool(case)
    raise ValueError(f"unknown family {fam!r}")
