"""C05 - pool query has no side effects on caller data, models, settings."""
import copy
import pickle

import numpy as np
from hypothesis import strategies as st

from .. import gen, poolreg, poolrun
from ..common import (Outcome, Violation, array_fingerprint, exc_violation,
                      guarded, snapshot, snapshot_diff, arr_equal_exact,
                      arr_close, SAME)
from . import c01

PROPERTY_ID = "C05"
TECHNIQUE = ("Hypothesis-generated query sequences (1-3 consecutive queries "
             "on different data, explicit and all-defaults configurations, "
             "fresh / pre-fitted caller models) with before/after oracles: "
             "byte-wise input fingerprints, structural snapshots of model "
             "arguments and get_params(deep=True), pickling, and "
             "clone-before vs clone-after differential")
RULE = (
    "Cases: registry entry (explicit registry configuration or the "
    "all-defaults configuration) x 1-3 rounds of (data set, label pattern, "
    "candidates, batch size) x model state (fresh / fitted beforehand, "
    "fit flag True/False where the fitted model allows it) x optional "
    "sample_weight / utility_weight x seed. Distinct = case hash. "
    "Non-trivial = all-defaults configuration (every lazily resolved None "
    "default runs), or a model argument that was already fitted, or >= 2 "
    "consecutive queries.")
RULE += (" Further generated dimensions (added while closing seeded "
         "changes): " + 'zero / negative utility_weight entries; alternative (array- and dict-valued) constructor configurations; pre-configured discriminator; list / int-typed argument containers' + ".")
ASSUMPTIONS = [
    "random generators held by a caller's model are compared by identity, "
    "not by state (with fit_clf=False the strategy legitimately calls the "
    "model's own predict, which may advance its tie-break generator)",
    "callables in parameters are compared by identity/qualified name, "
    "dict-valued parameters by content",
    "the clone-before vs clone-after comparison seeds numpy's global "
    "generator identically before both calls (strategies whose default "
    "clustering falls back to it are a C06 matter)",
]
PROFILE = {
    "quick": dict(examples=1600, shards=16, budget_s=80),
    "thorough": dict(examples=12000, shards=16, budget_s=1100),
}


def params_snapshot(est):
    """get_params(deep=True) by value; nested estimators are represented by
    their type only (their own parameters appear as '<name>__<param>')."""
    out = {}
    for k, v in est.get_params(deep=True).items():
        if hasattr(v, "get_params") and not isinstance(v, type):
            out[k] = ("estimator", type(v).__name__)
        elif isinstance(v, (list, tuple)) and v and all(
                hasattr(x, "get_params") for x in v):
            out[k] = ("estimators", tuple(type(x).__name__ for x in v))
        else:
            out[k] = snapshot(v, rng_by_id=True)
    return out


FIT_FLAG = {"clf": "fit_clf", "ensemble": "fit_ensemble",
            "reg_ensemble": "fit_ensemble", "reg": "fit_reg"}
NO_FIT_FLAG = {"ValueOfInformationEER": "fit_clf"}


@st.composite
def _case(draw, tier):
    name = draw(st.sampled_from(c01.all_names()))
    ent = poolreg.base_entry(name)
    kw = {}
    if name.startswith("Parallel"):
        kw["batch_sizes"] = [1]
    first = draw(gen.pool_case([name], vary_model=True, **kw))
    fixed = {"K": first["K"], "task": first["task"], "d": len(first["X"][0])}
    rounds = [first]
    for _ in range(draw(st.sampled_from([0, 0, 1, 1, 2]))):
        r = draw(gen.pool_case([name], fixed=fixed, **kw))
        r["enc"] = first["enc"]
        rounds.append(r)
    defaults = (not poolreg.is_wrapper(name)) and draw(st.booleans())
    if (not defaults) and ent["alt"] and not poolreg.is_wrapper(name) \
            and draw(st.booleans()):
        ai = draw(st.integers(0, len(ent["alt"]) - 1))
        for r in rounds:
            r["opts"]["alt_init"] = ai
    model_state = draw(st.sampled_from(["fresh", "fresh", "prefit",
                                        "prefit_nofit"]))
    if ent["model"] is None or ent["model"][0] == "discriminator":
        model_state = "fresh"
    with_uw = ent["utility_weight"] and draw(st.booleans())
    for r in rounds:
        if with_uw:
            ncol = (len(r["cand"]["value"]) if r["cand"]["mode"] == "feat"
                    else len(r["X"]))
            # any numbers are accepted as weights (multiplied with the
            # utilities); zero and negative entries included
            uwv = st.one_of(st.floats(0.1, 2.0).map(lambda v: round(v, 2)),
                            st.floats(0.1, 2.0).map(lambda v: round(v, 2)),
                            st.sampled_from([0.0, -0.5, -2.0, 1.0]))
            r["opts"]["utility_weight"] = [draw(uwv) for _ in range(ncol)]
    return dict(entry=name, rounds=rounds, defaults=defaults,
                model_state=model_state, seed=first["seed"])


def case_strategy(tier, shard=0, nshards=1):
    from . import c05_ma
    return st.one_of(_case(tier), _case(tier), _case(tier),
                     *c05_ma.strategies(tier))


def _model_objects(qk):
    out = {}
    for k in ("clf", "reg", "ensemble", "discriminator"):
        if k in qk:
            out[k] = qk[k]
    return out


def _snap_models(models):
    snaps = {}
    for k, m in models.items():
        members = m if isinstance(m, (list, tuple)) else [m]
        snaps[k] = [(snapshot(params_snapshot(x), rng_by_id=True),
                     snapshot(vars(x), rng_by_id=True)) for x in members]
    return snaps


def _fit_models(models, X, y):
    for k, m in models.items():
        members = m if isinstance(m, (list, tuple)) else [m]
        for x in members:
            x.fit(X, y)


def _round_args(case, r, data, qk):
    kwargs = dict(qk)
    for key in ("sample_weight", "utility_weight"):
        kwargs.pop(key, None)
    ent = poolreg.base_entry(case["entry"])
    sw = r["opts"].get("sample_weight")
    if sw is not None and ent["sample_weight"]:
        kwargs["sample_weight"] = np.array(sw, dtype=float)
    uw = r["opts"].get("utility_weight")
    if uw is not None and ent["utility_weight"]:
        kwargs["utility_weight"] = np.array(uw, dtype=float)
    return kwargs


def run_case(case):
    if case.get("kind") == "ma":
        from . import c05_ma
        return c05_ma.run_case(case, params_snapshot)
    from sklearn.base import clone
    comp = case["entry"]
    ent = poolreg.base_entry(comp)
    rounds = case["rounds"]
    first = rounds[0]
    cfg = "defaults" if case["defaults"] else "explicit"
    labels = [f"component={comp}", f"config={cfg}",
              f"rounds={len(rounds)}", f"model={case['model_state']}"]
    nontrivial = (case["defaults"] or case["model_state"] != "fresh"
                  or len(rounds) >= 2)
    viol = []
    data0 = poolreg.build_data(first)
    ok, built = guarded(poolreg.build_strategy, comp, data0, first,
                        first["seed"], case["defaults"])
    if not ok:
        return Outcome([exc_violation(comp, built, f"config={cfg}",
                                      "constructor")], nontrivial, labels)
    qs, qk = built
    models = _model_objects(qk)
    kind = ent["model"][0] if ent["model"] else None
    flag = FIT_FLAG.get(kind)
    fit_value = True
    if case["model_state"] in ("prefit", "prefit_nofit") and models:
        ok, r = guarded(_fit_models, models, data0["X"].copy(),
                        data0["y"].copy())
        if not ok:
            # the model itself cannot be fitted on this data: not C05
            labels.append("prefit_failed")
            return Outcome([], False, labels)
        if case["model_state"] == "prefit_nofit" and flag is not None:
            fit_value = False
    # reference results from a clone taken BEFORE any query
    ok, clone_before = guarded(clone, qs)
    if not ok:
        return Outcome([exc_violation(comp, clone_before, f"config={cfg}",
                                      "clone before query")],
                       nontrivial, labels)
    params_before = params_snapshot(qs)
    try:
        pickle.dumps(qs)
        picklable = True
    except Exception:
        picklable = False
    model_snap_before = _snap_models(models)

    def one_query(strategy, r, collect=None):
        data = poolreg.build_data(r)
        cand = poolreg.build_candidates(r)
        kwargs = _round_args(case, r, data, qk)
        if flag is not None:
            kwargs[flag] = fit_value
        X, y = data["X"].copy(), data["y"].copy()
        args = {"X": X, "y": y, "candidates": cand}
        for k in ("sample_weight", "utility_weight"):
            if k in kwargs:
                args[k] = kwargs[k]
        fp = {k: array_fingerprint(v) for k, v in args.items()}
        np.random.seed(12345)
        ok, res = guarded(strategy.query, X, y, candidates=cand,
                          batch_size=r["batch_size"], return_utilities=True,
                          **kwargs)
        changed = [k for k, v in args.items() if array_fingerprint(v) != fp[k]]
        return ok, res, changed

    results = []
    for i, r in enumerate(rounds):
        ok, res, changed = one_query(qs, r)
        for k in changed:
            viol.append(Violation(comp, "input_array_modified", k,
                                  f"round {i}: argument {k} changed"))
        if not ok:
            # exceptions are C01's business; stop here without a verdict
            labels.append("query_raised")
            results.append(None)
            break
        results.append(res)
        # model arguments unchanged
        snap_after = _snap_models(models)
        for k in models:
            for j, (b, a) in enumerate(zip(model_snap_before[k],
                                           snap_after[k])):
                if b[0] != a[0]:
                    d = snapshot_diff(b[0], a[0])
                    viol.append(Violation(
                        comp, "model_params_changed",
                        f"{k}&fit={fit_value}&state={case['model_state']}",
                        f"round {i} member {j}: {d}"))
                elif b[1] != a[1]:
                    d = snapshot_diff(b[1], a[1])
                    viol.append(Violation(
                        comp, "model_state_changed",
                        f"{k}&fit={fit_value}&state={case['model_state']}",
                        f"round {i} member {j}: {d}"))
        # strategy parameters unchanged
        params_after = params_snapshot(qs)
        if params_after != params_before:
            names = sorted(k for k in set(params_before) | set(params_after)
                           if params_before.get(k, "<absent>")
                           != params_after.get(k, "<absent>"))
            d = [f"{k}: {params_before.get(k)!r:.60} -> "
                 f"{params_after.get(k)!r:.60}" for k in names]
            viol.append(Violation(comp, "strategy_params_changed",
                                  f"params={','.join(names)}",
                                  f"round {i}: {d}"))
        if picklable:
            try:
                pickle.dumps(qs)
            except Exception as e:
                viol.append(Violation(comp, "not_picklable_after_query",
                                      f"config={cfg}", repr(e)[:200]))
        if viol:
            break
    # clone-after behaves like clone-before (on the first round's input)
    # (skipped with fit flag False: the caller's model then legitimately
    # advances its own tie-break generator between the two compared calls)
    if not viol and results and results[0] is not None and fit_value:
        ok, clone_after = guarded(clone, qs)
        if not ok:
            viol.append(exc_violation(comp, clone_after, f"config={cfg}",
                                      "clone after query"))
        else:
            ok1, r1, _ = one_query(clone_before, first)
            ok2, r2, _ = one_query(clone_after, first)
            if ok1 != ok2:
                viol.append(Violation(
                    comp, "clone_after_differs", f"config={cfg}",
                    f"clone before ok={ok1} ({r1!r:.100}), after ok={ok2} "
                    f"({r2!r:.100})"))
            elif ok1:
                q1, u1 = r1
                q2, u2 = r2
                if (not arr_equal_exact(np.asarray(q1).reshape(-1),
                                        np.asarray(q2).reshape(-1))
                        or not arr_close(u1, u2, **SAME)):
                    viol.append(Violation(
                        comp, "clone_after_differs", f"config={cfg}",
                        f"indices {np.asarray(q1).tolist()} vs "
                        f"{np.asarray(q2).tolist()}"))
    return Outcome(viol, nontrivial, labels)
