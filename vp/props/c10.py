"""C10 - stream update commits exactly what query simulated.

(a) every component: update(candidates, q) accepts the q that query just
    returned for these candidates; q is strictly increasing, integer and
    within range(len(candidates)); utilities has one entry per candidate.
(b) the deterministic managers / strategies: one stream is processed once
    instance by instance and once with a generated partition; decisions and
    the complete state must agree at every chunk boundary (lock step, so the
    FIRST divergence and the chunk that caused it are reported).
"""
import copy

import numpy as np
from hypothesis import strategies as st

from .. import streamreg as R
from ..common import Outcome, Violation, exc_violation, guarded

PROPERTY_ID = "C10"
TECHNIQUE = ("Hypothesis-generated streams and chunk partitions; oracle (a) "
             "well-formedness and acceptance of query results by update for "
             "all components, (b) lock-step comparison of a one-by-one run "
             "with a chunked run of the same stream (decisions and by-value "
             "state at every chunk boundary) for the components for which "
             "chunking invariance is claimed")
RULE = (
    "Case = component (13 stream strategies with all flag values, 7 concrete "
    "budget managers driven directly) x config (budget in {0.01,0.1,0.3,0.5,"
    "0.9,1.0}, windows in {1,2,5,20,100}, (w,budget) biased so that the "
    "budget guard flips within the stream) x fixed training set x stream of "
    "5-60 instances (utilities biased high) x partition (chunk sizes 1-8, "
    "applied cyclically). Classifier fitted on the fixed training set only "
    "(row-wise evaluated ParzenWindowClassifier or an arithmetic stub), so "
    "utilities are a function of the instance. Distinct = distinct case "
    "hash; non-trivial = a chunk of size >= 2 in which the budget guard "
    "(observed on the one-by-one run) flips / in which granted and denied "
    "instances are mixed (components without a boolean guard or without "
    "reference run), or, for density and cognitive strategies, a chunk in "
    "which a later instance passes the density filter while an earlier one "
    "does not.")
RULE += (" Further generated dimensions (added while closing seeded "
         "changes): " + 'queried indices handed to update as int32 arrays; budgets with non-integer reciprocal (0.15, 0.35, 0.6, free floats); per-instance utility_weight' + ".")
ASSUMPTIONS = [
    "chunking invariance (b) is checked for FixedUncertainty-, "
    "VariableUncertainty-, Split-, Random-BudgetManager, "
    "BalancedIncrementalQuantileFilter, the strategies FixedUncertainty, "
    "VariableUncertainty, Split, StreamProbabilisticAL, StreamRandomSampling "
    "and PeriodicSampling; all other components (normal variates, "
    "per-instance manager calls) are checked for (a) only",
    "(b) compares only while the utilities of both runs are bit-identical "
    "(BLAS may round a one-row and a multi-row kernel product differently; "
    "StreamProbabilisticAL(metric='rbf') builds its own kernel model); such "
    "cases are labelled utilities_not_bitwise_equal and keep oracle (a)",
    "state = vars(obj) by value incl. nested budget manager and RandomState; "
    "n_features_in_ is ignored",
    "the density-filter pattern of a chunk (used only for the trigger / "
    "non-triviality predicates, never for the verdict) is read by replaying "
    "the private _calculate_ldf on a deep copy of the strategy",
    "NaN utilities are generated only for managers that the library itself "
    "feeds NaN (density / cognitive strategies); not for "
    "BalancedIncrementalQuantileFilter",
]
PROFILE = {
    "quick": dict(examples=1100, shards=16, budget_s=110),
    "thorough": dict(examples=10000, shards=16, budget_s=1100),
}


# ------------------------------------------------------------ generator ----
@st.composite
def _case(draw):
    kind, name, cfg, classes = draw(R.component())
    spec = R.spec_of(kind, name)
    case = dict(kind=kind, name=name, config=cfg, classes=classes)
    if kind == "strategy":
        regime = draw(st.sampled_from(["lattice", "cont", "stub", "stub"]))
        d = 2 if regime == "stub" else draw(st.sampled_from([1, 2, 2]))
        if regime == "stub":
            ctype = "stub"
        elif spec["chunk_inv"]:
            ctype = "pwc_rowwise"
        else:
            ctype = draw(st.sampled_from(["pwc", "pwc_rowwise"]))
        case["clf"] = {"type": ctype}
        X, y, _ = draw(R.training_set(regime, d, classes, 1, 8))
        case["train_X"], case["train_y"] = X, y
        case["fit_clf"] = draw(st.booleans())
        n = draw(st.sampled_from([12, 20, 8, 30, 5, 40] if spec["clf"]
                                 else [20, 10, 40, 5, 60]))
        case["stream"] = draw(R.rows(regime, d, n, n))
        if name == "StreamProbabilisticAL" and draw(st.integers(0, 2)) == 0:
            case["utility_weight"] = draw(st.lists(
                st.sampled_from([0.5, 1.0, 2.0, 0.1]), min_size=n,
                max_size=n))
    else:
        n = draw(st.sampled_from([20, 10, 40, 5, 60]))
        case["stream"] = draw(R.utilities(
            n, n, nan_ok=spec["nan_ok"] and draw(st.integers(0, 3)) == 0,
            high=draw(st.integers(0, 3)) > 0))
    case["partition"] = draw(st.lists(
        st.sampled_from([3, 2, 4, 1, 2, 5, 3, 6, 8]), min_size=1,
        max_size=10))
    case["arg_style"] = draw(st.sampled_from(R.ARG_STYLES))
    return case


def case_strategy(tier, shard=0, nshards=1):
    return _case()


# --------------------------------------------------------------- helpers ----
def _chunks(n, partition):
    out, lo, i = [], 0, 0
    sizes = [max(1, int(s)) for s in partition] or [1]
    while lo < n:
        hi = min(n, lo + sizes[i % len(sizes)])
        out.append((lo, hi))
        lo, i = hi, i + 1
    return out


class _Run:
    """One object processing the stream (own object, own classifier)."""

    def __init__(self, case):
        self.case = case
        self.kind, self.name = case["kind"], case["name"]
        self.spec = R.spec_of(self.kind, self.name)
        self.obj = R.build(self.kind, self.name, case["config"])
        s = np.asarray(case["stream"], dtype=float)
        self.stream = s if self.kind == "strategy" else s.ravel()
        self.kw = {}
        if self.kind == "strategy" and self.spec["clf"]:
            X = np.asarray(case["train_X"], dtype=float)
            y = np.asarray(case["train_y"], dtype=float)
            clf = R.build_clf(case["clf"], case["classes"])
            if not case["fit_clf"]:
                clf = clf.fit(X, y)
            self.kw = dict(clf=clf, X=X, y=y, fit_clf=bool(case["fit_clf"]))

    def query(self, lo, hi):
        kw = dict(self.kw)
        uw = self.case.get("utility_weight")
        if uw is not None:
            # a per-instance weight (part of the stream, independent of the
            # chunking)
            kw["utility_weight"] = np.asarray(uw[lo:hi], dtype=float)
        return guarded(R.call_query, self.kind, self.name, self.obj,
                       self.stream[lo:hi].copy(), return_utilities=True,
                       **kw)

    def update(self, lo, hi, q, u):
        return guarded(R.call_update, self.kind, self.name, self.obj,
                       self.stream[lo:hi].copy(), q, u)

    # ---- observers used for triggers / non-triviality only ----
    def guard(self):
        """Boolean budget guard the component would apply to the next
        instance, read from public fitted attributes (None: no such guard)."""
        o = self.obj
        try:
            if self.kind == "strategy" and self.spec["bm"] is None:
                b = getattr(o, "budget_", o.budget)
                obs = getattr(o, "observed_samples_", 0) + 1
                avail = obs * b - getattr(o, "queried_samples_", 0)
                if self.name == "PeriodicSampling":
                    return bool(avail >= 1)
                if o.allow_exceeding_budget:
                    return None  # no budget guard at all
                return bool(avail > 1)
            bm = R.manager_of(self.kind, o)
            if bm is None:
                # nothing accounted yet: every boolean guard is open
                return (None if self.spec["bm"] ==
                        "BalancedIncrementalQuantileFilter" else True)
            b = getattr(bm, "budget_", bm.budget)
            if hasattr(bm, "w") and not hasattr(bm, "w_tol"):
                return bool(getattr(bm, "u_t_", 0) / bm.w < b)
            if hasattr(bm, "delta") and not hasattr(bm, "w"):
                return bool(b > getattr(bm, "u_", 0)
                            / (getattr(bm, "t_", 0) + 1))
        except Exception:
            pass
        return None

    def density_pattern(self, lo, hi):
        """pass/fail of the density filter for every instance of the chunk
        (cognitive / density strategies), None if it cannot be determined."""
        if not (self.spec.get("cognitive") or self.spec.get("density")):
            return None
        try:
            p = copy.deepcopy(self.obj)
            if not hasattr(p, "min_dist_"):
                return None
            out = []
            for x in self.stream[lo:hi]:
                ldf = p._calculate_ldf([x])
                if self.spec.get("cognitive"):
                    out.append(bool(ldf >= p.density_threshold))
                    p.t_ += 1
                else:
                    out.append(bool(ldf > 0))
                    p.window_.append(x)
            return out
        except Exception:
            return None


def _check_q(comp, q, u, n, is_strategy, trig):
    """Oracle (a), format part. Returns (violations, list_of_int or None)."""
    viol = []
    try:
        items = list(np.asarray(q, dtype=object).ravel().tolist()) \
            if not isinstance(q, list) else list(q)
    except Exception as e:
        return [Violation(comp, "queried_indices_unreadable", trig,
                          f"{type(q).__name__}: {e}")], None
    if isinstance(q, np.ndarray) and q.ndim != 1:
        viol.append(Violation(comp, "queried_indices_not_1d", trig,
                              f"shape {q.shape}"))
    if not all(isinstance(i, (int, np.integer))
               and not isinstance(i, (bool, np.bool_)) for i in items):
        viol.append(Violation(
            comp, "queried_indices_not_integer", trig,
            f"{[type(i).__name__ for i in items]}"))
        return viol, None
    items = [int(i) for i in items]
    if any(i < 0 or i >= n for i in items):
        viol.append(Violation(comp, "queried_indices_out_of_range", trig,
                              f"{items} for {n} candidates"))
    if any(b <= a for a, b in zip(items, items[1:])):
        viol.append(Violation(comp, "queried_indices_not_strictly_increasing",
                              trig, f"{items}"))
    if is_strategy:
        try:
            shape = np.asarray(u, dtype=float).shape
        except Exception:
            shape = None
        if shape != (n,):
            viol.append(Violation(comp, "utilities_wrong_shape", trig,
                                  f"shape {shape} for {n} candidates"))
    return viol, items


def _bits(a):
    return np.asarray(a, dtype=float).tobytes()


# ---------------------------------------------------------------- oracle ----
def run_case(case):
    R.set_arg_style(case.get("arg_style"))
    try:
        out = _run_case(case)
    finally:
        R.set_arg_style(None)
    out.labels.append(f"arg_style={case.get('arg_style') or 'ndarray'}")
    return out


def _run_case(case):
    kind, name, cfg = case["kind"], case["name"], case["config"]
    comp = R.component_label(kind, name, cfg)
    spec = R.spec_of(kind, name)
    n = len(case["stream"])
    chunks = _chunks(n, case["partition"])
    is_strategy = kind == "strategy"
    labels = [f"component={comp}", f"kind={kind}",
              f"budget={cfg.get('budget')}",
              "oracle=" + ("a+b" if spec["chunk_inv"] else "a")]
    if is_strategy and spec["clf"]:
        labels += [f"clf={case['clf']['type']}",
                   f"fit_clf={bool(case['fit_clf'])}"]
    viol = []
    nontrivial = False

    def done():
        return Outcome(viol, nontrivial and not viol, labels)

    # ---- reference: one instance at a time -----------------------------
    ref = None
    if spec["chunk_inv"]:
        r = _Run(case)
        ref = dict(dec=[], util=[], state=[], guard=[])
        for i in range(n):
            ref["guard"].append(r.guard())
            ok, res = r.query(i, i + 1)
            if not ok:
                viol.append(exc_violation(comp, res, "query&chunk_size=1",
                                          f"one-by-one run, instance {i}"))
                return done()
            q, u = res
            v, items = _check_q(comp, q, u, 1, is_strategy, "chunk_size=1")
            if v:
                viol.extend(v)
                return done()
            ok, e = r.update(i, i + 1, q, u)
            if not ok:
                viol.append(exc_violation(
                    comp, e, "update_of_query_result&chunk_size=1",
                    f"one-by-one run, instance {i}"))
                return done()
            ref["dec"].append(len(items) == 1)
            ref["util"].append(None if u is None else _bits(u))
            ref["state"].append(R.state_of(r.obj))
        g = sum(ref["dec"])
        labels.append("decisions=" + ("mixed" if 0 < g < n else
                                      "all_granted" if g else "all_denied"))

    # ---- chunked run ----------------------------------------------------
    c = _Run(case)
    compare = ref is not None
    sizes = set()
    flips_seen = mixed_seen = later_passes_seen = False
    bitwise_ok = True
    for (lo, hi) in chunks:
        m = hi - lo
        sizes.add(1 if m == 1 else 2 if m <= 3 else 4)
        size_t = "chunk_size>1" if m > 1 else "chunk_size=1"
        ok, res = c.query(lo, hi)
        if not ok:
            viol.append(exc_violation(comp, res, f"query&{size_t}",
                                      f"chunk [{lo},{hi})"))
            return done()
        q, u = res
        v, items = _check_q(comp, q, u, m, is_strategy, size_t)
        if v:
            viol.extend(v)
            return done()
        # (read after the query, which creates the lazily initialised
        # windows; the query itself is pure - C03)
        pat = c.density_pattern(lo, hi)
        # predicates over the input (for triggers and non-triviality)
        later_passes = earlier_filtered_before_query = False
        if pat is not None:
            later_passes = any((not pat[a]) and any(pat[a + 1:])
                               for a in range(m))
            earlier_filtered_before_query = any(
                not all(pat[:j]) for j in items if j < len(pat))
            if m > 1 and later_passes:
                later_passes_seen = True
        if m > 1 and 0 < len(items) < m:
            mixed_seen = True
        flips = None
        if ref is not None:
            gs = ref["guard"][lo:hi]
            if all(x is not None for x in gs):
                flips = len(set(gs)) > 1
                if m > 1 and flips:
                    flips_seen = True
        if flips is None:
            guard_t = size_t
        elif m > 1:
            guard_t = ("guard_flips_inside_chunk" if flips else
                       "chunk_size>1&guard_constant")
        else:
            guard_t = "chunk_size=1"
        # (b) decisions
        if compare:
            if is_strategy and u is not None:
                same_bits = (b"".join(ref["util"][lo:hi]) == _bits(u))
                if not same_bits and not spec["clf"]:
                    # the baselines draw their utilities themselves: they
                    # are part of what must not depend on the chunking
                    viol.append(Violation(
                        comp, "chunking_dependent_utilities", guard_t,
                        f"chunk [{lo},{hi}): utilities "
                        f"{np.asarray(u).tolist()} differ from the "
                        f"one-by-one run (equal state at chunk start)"))
                    return done()
                if not same_bits:
                    bitwise_ok = False
                    compare = False
            if compare:
                want = [j for j in range(m) if ref["dec"][lo + j]]
                if want != items:
                    viol.append(Violation(
                        comp, "chunking_dependent_decisions", guard_t,
                        f"chunk [{lo},{hi}): one-by-one run granted "
                        f"{want}, chunked run {items} (equal state at "
                        f"chunk start)"))
                    return done()
        # (a) update accepts the query result
        ok, e = c.update(lo, hi, q, u)
        if not ok:
            if pat is not None:
                t = (f"{size_t}&earlier_instance_filtered"
                     if earlier_filtered_before_query else
                     f"{size_t}&no_earlier_instance_filtered")
            else:
                t = size_t
            viol.append(exc_violation(
                comp, e, t, f"update(chunk [{lo},{hi}), {items}); density "
                f"filter pattern {pat}"))
            return done()
        # (b) state
        if compare:
            d = R.state_diff(ref["state"][hi - 1], R.state_of(c.obj))
            if d:
                keys = [k for k, _ in d]
                viol.append(Violation(
                    comp, f"chunking_dependent_state:{','.join(keys)}",
                    guard_t,
                    f"after chunk [{lo},{hi}) (states equal before it): "
                    f"one-by-one vs chunked differ in {keys}: {d[0][1]}"))
                return done()

    if not bitwise_ok:
        labels.append("utilities_not_bitwise_equal")
    labels += [f"chunk_sizes={'+'.join(str(s) for s in sorted(sizes))}"]
    labels.append("stream=" + ("5-10" if n <= 10 else "11-30" if n <= 30
                               else "31-60"))
    if ref is not None and all(x is not None for x in ref["guard"]):
        labels.append(f"guard_flips_inside_chunk={flips_seen}")
        nontrivial = flips_seen
    elif spec.get("cognitive") or spec.get("density"):
        labels.append(f"later_instance_passes_filter={later_passes_seen}")
        nontrivial = later_passes_seen
    else:
        labels.append(f"mixed_decisions_in_chunk={mixed_seen}")
        nontrivial = mixed_seen
    if ref is not None and not bitwise_ok:
        nontrivial = False
    return done()
