"""C04 - budget managers never spend more labels than the budget allows.

One case = one complete stream driven through one budget-enforcing component
(manager directly, or the Zliobaite strategy around it with a stub classifier,
or a baseline stream strategy).  Oracle = history invariant over all prefix
lengths + an independent pure-Python replay of the documented estimate.
"""
import math

import numpy as np
from hypothesis import strategies as st

from ..common import (CallTimeout, Outcome, Violation, exc_violation,
                      guarded)

PROPERTY_ID = "C04"
TECHNIQUE = ("Hypothesis-generated adversarial utility streams x budgets x "
             "windows x chunkings driven through every budget-enforcing "
             "manager/strategy; oracle = per-prefix label-count bound plus an "
             "independent replay of the documented spent-budget estimate "
             "(guard must hold strictly before every grant)")
RULE = (
    "Case = component (5 window-based managers, directly and - where a "
    "strategy exists - through FixedUncertainty/VariableUncertainty/"
    "RandomVariableUncertainty/Split with a stub classifier that reports "
    "the prescribed utility; DensityBasedSplitBudgetManager; "
    "PeriodicSampling; StreamRandomSampling(allow_exceeding_budget=False)) "
    "x budget in (0,1] (pool {1e-3,0.25,0.5,1.0}, 1/w, arbitrary floats) x "
    "window w in [1,200] (pool {1,2,4}) x utility stream (constant 1.0, "
    "constant 5.0, NaN-mixed, increasing, alternating, random tile, seeded "
    "random, realistic [0,0.5]) of 1..600 (thorough 5000) instances x "
    "chunking (cyclic tile of chunk sizes 1..8 with occasional large chunks) "
    "x seed x manager parameters (theta, s, delta, v, number of classes; "
    "strategy budget absent/equal/different from the manager's; indices "
    "handed to update as list or int ndarray). Every chunk is one "
    "query(+utilities) call followed by one update call with the returned "
    "indices. Distinct = distinct case hash. "
    "Non-trivial = the replayed guard was false (budget exhausted) at >= 1 "
    "instance whose utility alone qualifies (non-NaN and: utility >= 1.0, "
    "i.e. confidence <= 0 is below every positive threshold; "
    "FixedUncertainty: confidence <= its fixed threshold; RandomBudgetManager"
    "/PeriodicSampling: any non-NaN instance; StreamRandomSampling: drawn "
    "utility >= 1-budget), or the label count came within 2 of the bound at "
    "some prefix with >= 2 labels.")
ASSUMPTIONS = [
    "bounds exactly as in the property statement: window managers "
    "b*n+n/w+b*w+1, DensityBasedSplitBudgetManager b*n+1, PeriodicSampling "
    "and StreamRandomSampling(allow_exceeding_budget=False) b*n; slack 1e-9",
    "the spent-budget estimate is replayed in IEEE double in the documented "
    "order u <- u*((w-1)/w) + granted from the observed grants only; a grant "
    "at replayed u/w >= budget is a violation; within 1e-12 relative of the "
    "boundary it is reported only if exact rational arithmetic agrees",
    "BalancedIncrementalQuantileFilter is not budget-enforcing in the sense "
    "of C04 (a constant utility stream is granted entirely) and is not named "
    "in the property statement: excluded",
    "through strategies the stub classifier returns rows whose maximum is "
    "1-utility (not a probability vector for utilities > 1-1/K); NaN "
    "utilities are encoded by a flag feature because check_array rejects "
    "NaN candidates",
    "theta-adaptation (which utilities qualify) and chunking invariance are "
    "C10; only the count bound and the budget guard are asserted here",
    "infinite utilities are offered to directly driven managers only",
    "a strategy constructed with both a budget manager and a different "
    "budget uses the manager as is (documented): the manager's budget is "
    "the one in the bound",
    "seeded_random/realistic streams are expanded from an integer seed in "
    "the case by numpy RandomState (deterministic function of the case)",
]
PROFILE = {
    "quick": dict(examples=4000, shards=16, budget_s=90),
    "thorough": dict(examples=14000, shards=16, budget_s=1100),
}

SLACK = 1e-9
WINDOW = ("FixedUncertaintyBudgetManager", "VariableUncertaintyBudgetManager",
          "RandomVariableUncertaintyBudgetManager", "SplitBudgetManager",
          "RandomBudgetManager")
STRATEGY_OF = {
    "FixedUncertaintyBudgetManager": "FixedUncertainty",
    "VariableUncertaintyBudgetManager": "VariableUncertainty",
    "RandomVariableUncertaintyBudgetManager": "RandomVariableUncertainty",
    "SplitBudgetManager": "Split",
}
# (component, via); via in manager | strategy | strategy_default | baseline
COMPONENTS = (
    [(c, "manager") for c in WINDOW]
    + [(c, "strategy") for c in STRATEGY_OF]
    + [(c, "strategy_default") for c in STRATEGY_OF]
    + [("DensityBasedSplitBudgetManager", "manager"),
       ("DensityBasedSplitBudgetManager", "manager"),
       ("PeriodicSampling", "baseline"), ("PeriodicSampling", "baseline"),
       ("StreamRandomSampling", "baseline"),
       ("StreamRandomSampling", "baseline")]
)
NAN = float("nan")


# ---------------------------------------------------------- generators ----
def _budget(draw, w):
    k = draw(st.integers(0, 9))
    if k <= 3:
        return draw(st.sampled_from([1e-3, 0.25, 0.5, 1.0]))
    if k <= 5:
        return 1.0 / w  # u/w == budget exactly right after the first grant
    if k == 6:
        return draw(st.sampled_from([0.01, 0.05, 0.1, 0.2, 0.3, 0.75, 0.9,
                                     0.99]))
    return draw(st.floats(min_value=1e-6, max_value=1.0, allow_nan=False,
                          exclude_min=False))


def _stream(draw, n, finite_only):
    kind = draw(st.sampled_from([
        "const_max", "const_max", "const_huge", "nan_mixed", "increasing",
        "alternating", "random_tile", "random_seeded", "realistic"]))
    s = {"kind": kind, "n": n}
    big = [1.0, 1.0, 5.0, 0.5, 0.0, 0.999, 1e6, -1.0]
    if not finite_only:
        big = big + [float("inf"), float("-inf")]
    if kind == "const_max":
        s["value"] = 1.0
    elif kind == "const_huge":
        s["value"] = 5.0
    elif kind == "increasing":
        s["lo"] = draw(st.sampled_from([0.0, -1.0, 0.4]))
        s["hi"] = draw(st.sampled_from([1.0, 1.5, 5.0, 0.5]))
    elif kind == "alternating":
        s["tile"] = draw(st.sampled_from([
            [0.0, 1.0], [1.0, 0.0], [1.0, 1.0, 0.0], [0.0, 0.0, 0.0, 5.0],
            [0.5, 1.0], [1.0, NAN], [0.2, 0.9, 5.0]]))
    elif kind == "nan_mixed":
        s["tile"] = draw(st.lists(
            st.one_of(st.just(NAN), st.sampled_from(big)),
            min_size=2, max_size=12))
        if not any(isinstance(x, float) and math.isnan(x)
                   for x in s["tile"]):
            s["tile"][draw(st.integers(0, len(s["tile"]) - 1))] = NAN
    elif kind == "random_tile":
        s["tile"] = draw(st.lists(
            st.one_of(st.floats(min_value=-0.5, max_value=1.5,
                                allow_nan=False),
                      st.sampled_from(big)),
            min_size=1, max_size=24))
    elif kind == "random_seeded":
        s["seed"] = draw(st.integers(0, 2**31 - 1))
        s["lo"] = draw(st.sampled_from([0.0, -0.5, 0.5, 0.9]))
        s["hi"] = draw(st.sampled_from([1.0, 1.2, 2.0, 5.0]))
        s["nan_frac"] = draw(st.sampled_from([0.0, 0.0, 0.1, 0.5]))
    else:  # realistic: what a K-class classifier can report
        s["seed"] = draw(st.integers(0, 2**31 - 1))
        s["lo"], s["hi"], s["nan_frac"] = 0.0, 0.5, 0.0
    return s


@st.composite
def _case(draw, tier, shard=0):
    # rotate by shard: Hypothesis favours early elements of a pool
    ci = draw(st.integers(0, len(COMPONENTS) - 1))
    comp, via = COMPONENTS[(ci + 5 * shard) % len(COMPONENTS)]
    if via == "strategy_default":
        w = 100  # the strategies' default manager has w=100
    else:
        w = draw(st.one_of(st.sampled_from([1, 2, 4]),
                           st.sampled_from([1, 2, 4, 8, 10, 16, 100]),
                           st.integers(1, 200)))
    budget = float(_budget(draw, w))
    max_n = 600 if tier == "quick" else 5000
    through_strategy = via in ("strategy", "strategy_default")
    n = draw(st.one_of(st.integers(1, 40), st.integers(1, 40),
                       st.integers(41, 200), st.integers(41, 200),
                       st.integers(201, max_n)))
    large = st.sampled_from([16, 50, 200, 1000])
    small = st.integers(1, 8)
    if through_strategy and n > 200:
        # a strategy call costs about 0.3 ms: keep long streams in larger
        # chunks so that the case count, not the call count, bounds the run
        chunk_tile = draw(st.lists(st.one_of(st.integers(4, 8), large),
                                   min_size=1, max_size=12))
    else:
        chunk_tile = draw(st.one_of(
            st.just([1]),
            st.lists(small, min_size=1, max_size=12),
            st.lists(st.one_of(small, small, small, large), min_size=1,
                     max_size=12)))
    params = {}
    if via != "strategy_default":
        params = {
            "theta": draw(st.sampled_from([1.0, 1.0, 0.5, 2.0])),
            "s": draw(st.sampled_from([0.01, 0.01, 0.1, 0.5, 1.0])),
            "delta": draw(st.sampled_from([1.0, 1.0, 0.1, 3.0])),
            "v": draw(st.sampled_from([0.1, 0.1, 0.5, 0.9])),
        }
    params["n_classes"] = draw(st.sampled_from([2, 2, 3, 5]))
    return {
        "component": comp,
        "via": via,
        "budget": budget,
        "w": w,
        "params": params,
        "stream": _stream(draw, n, finite_only=through_strategy),
        "chunk_tile": chunk_tile,
        "seed": draw(st.integers(0, 2**31 - 1)),
        "fit_clf": draw(st.booleans()) if through_strategy else False,
    }


def case_strategy(tier, shard=0, nshards=1):
    return _case(tier, shard)


# ------------------------------------------------------ case expansion ----
def expand_stream(s):
    n = int(s["n"])
    kind = s["kind"]
    if kind in ("const_max", "const_huge"):
        return np.full(n, float(s["value"]))
    if kind == "increasing":
        lo, hi = float(s["lo"]), float(s["hi"])
        return lo + (hi - lo) * np.arange(n) / max(n - 1, 1)
    if kind in ("alternating", "nan_mixed", "random_tile"):
        tile = np.array([NAN if x is None else float(x) for x in s["tile"]],
                        dtype=float)
        return np.resize(tile, n)
    rs = np.random.RandomState(int(s["seed"]))
    vals = rs.uniform(float(s["lo"]), float(s["hi"]), n)
    mask = rs.random_sample(n) < float(s.get("nan_frac", 0.0))
    vals[mask] = NAN
    return vals


def expand_chunks(tile, n):
    out, tot, i = [], 0, 0
    while tot < n:
        c = min(int(tile[i % len(tile)]), n - tot)
        out.append(c)
        tot += c
        i += 1
    return out


# ------------------------------------------------------ stub classifier ----
_STUB = {}


def _stub_class():
    if "cls" in _STUB:
        return _STUB["cls"]
    from skactiveml.base import SkactivemlClassifier

    class PrescribedUtilityClassifier(SkactivemlClassifier):
        """predict_proba rows have maximum 1 - X[:, 0] (NaN if X[:, 1])."""

        def __init__(self, classes=None, missing_label=np.nan,
                     cost_matrix=None, random_state=None):
            super().__init__(classes=classes, missing_label=missing_label,
                             cost_matrix=cost_matrix,
                             random_state=random_state)

        def fit(self, X, y, sample_weight=None):
            self.fitted_ = True
            return self

        def predict_proba(self, X):
            X = np.asarray(X, dtype=float)
            u = X[:, 0]
            k = len(self.classes)
            P = np.repeat((1.0 - u)[:, None], k, axis=1)
            valid = (u >= 0) & (u <= 1 - 1 / k)
            if valid.any():
                P[valid, 1:] = (u[valid] / (k - 1))[:, None]
            P[X[:, 1] > 0] = np.nan
            return P

    _STUB["cls"] = PrescribedUtilityClassifier
    return PrescribedUtilityClassifier


def _make_manager(case):
    from skactiveml.stream import budgetmanager as bm
    comp, p = case["component"], case["params"]
    b, w, seed = float(case["budget"]), int(case["w"]), int(case["seed"])
    theta, s = float(p.get("theta", 1.0)), float(p.get("s", 0.01))
    delta, v = float(p.get("delta", 1.0)), float(p.get("v", 0.1))
    classes = list(range(int(p["n_classes"])))
    if comp == "FixedUncertaintyBudgetManager":
        return bm.FixedUncertaintyBudgetManager(classes=classes, w=w,
                                                budget=b)
    if comp == "VariableUncertaintyBudgetManager":
        return bm.VariableUncertaintyBudgetManager(theta=theta, s=s, w=w,
                                                   budget=b)
    if comp == "RandomVariableUncertaintyBudgetManager":
        return bm.RandomVariableUncertaintyBudgetManager(
            delta=delta, theta=theta, s=s, random_state=seed, w=w, budget=b)
    if comp == "SplitBudgetManager":
        return bm.SplitBudgetManager(v=v, theta=theta, s=s,
                                     random_state=seed, w=w, budget=b)
    if comp == "RandomBudgetManager":
        return bm.RandomBudgetManager(random_state=seed, w=w, budget=b)
    if comp == "DensityBasedSplitBudgetManager":
        return bm.DensityBasedSplitBudgetManager(
            theta=theta, s=s, delta=delta, random_state=seed, budget=b)
    raise KeyError(comp)


class _Driver:
    """Uniform step(chunk of utilities) -> (indices, reported utilities)."""

    def __init__(self, case):
        import skactiveml.stream as sst
        self.case = case
        self.via = via = case["via"]
        comp = case["component"]
        b, seed = float(case["budget"]), int(case["seed"])
        self.clf = None
        self.as_array = bool((seed // 3) % 2)
        if via == "manager":
            self.obj = _make_manager(case)
        elif via == "baseline":
            if comp == "PeriodicSampling":
                self.obj = sst.PeriodicSampling(budget=b, random_state=seed)
            else:
                self.obj = sst.StreamRandomSampling(
                    allow_exceeding_budget=False, budget=b,
                    random_state=seed)
        else:
            classes = list(range(int(case["params"]["n_classes"])))
            cls = getattr(sst, STRATEGY_OF[comp])
            kw = dict(random_state=seed)
            if comp == "FixedUncertaintyBudgetManager":
                kw["classes"] = classes
            if via == "strategy":
                kw["budget_manager"] = _make_manager(case)
                # strategy budget: absent / equal / different ("the budget
                # manager is used as is": the manager's budget is binding)
                kw["budget"] = (None, b, 0.77)[seed % 3]
            else:
                kw["budget"] = b
            self.obj = cls(**kw)
            self.clf = _stub_class()(classes=classes)

    def manager(self):
        if self.via == "manager":
            return self.obj
        return getattr(self.obj, "budget_manager_", None)

    def step(self, util):
        n = len(util)
        if self.via == "manager":
            idx = self.obj.query_by_utility(util.copy())
            # the managers return a list; update documents an ndarray
            arg = np.asarray(idx, dtype=int) if self.as_array else idx
            self.obj.update(np.zeros((n, 1)), arg)
            return idx, util
        if self.via == "baseline":
            cand = np.zeros((n, 1))
            idx, rep = self.obj.query(cand, return_utilities=True)
            self.obj.update(cand, idx)
            return idx, rep
        nan = np.isnan(util)
        cand = np.column_stack([np.where(nan, 0.0, util), nan.astype(float)])
        kw = {}
        if self.case.get("fit_clf"):
            kw = dict(X=np.zeros((2, 2)), y=np.array([0, 1]), fit_clf=True)
        idx, rep = self.obj.query(cand, clf=self.clf, return_utilities=True,
                                  **kw)
        self.obj.update(cand, idx)
        return idx, rep


# -------------------------------------------------------------- oracle ----
def _bound(kind, b, w, n):
    n = np.asarray(n, dtype=float)
    if kind == "window":
        return b * n + n / w + b * w + 1
    if kind == "density":
        return b * n + 1
    return b * n


def _exact_not_below(grants_before, w, b):
    """Exact rational evaluation of the documented recurrence on the grant
    history `grants_before` (0/1 per earlier instance): is u/w >= b ?"""
    num, pw = 0, 1  # u_t = num / w**t
    for g in grants_before:
        pw *= w
        num = num * (w - 1) + (pw if g else 0)
    p, q = float(b).as_integer_ratio()
    return num * q >= p * pw * w


def _bclass(b, w):
    for v in (1e-3, 0.25, 0.5, 1.0):
        if b == v:
            return f"budget={v}"
    if b == 1.0 / w:
        return "budget=1/w"
    return "budget=small" if b < 0.05 else "budget=other"


def _wclass(w):
    if w in (1, 2, 4):
        return f"w={w}"
    return "w=3-20" if w <= 20 else "w=21-200"


def run_case(case):
    comp, via = case["component"], case["via"]
    name = comp if via in ("manager", "baseline") else (
        f"{comp}[{STRATEGY_OF[comp]}"
        f"{'/default' if via == 'strategy_default' else ''}]")
    b, w = float(case["budget"]), int(case["w"])
    util = expand_stream(case["stream"])
    n_total = len(util)
    chunks = expand_chunks(case["chunk_tile"], n_total)
    skind = case["stream"]["kind"]
    kind = ("window" if comp in WINDOW else
            "density" if comp == "DensityBasedSplitBudgetManager" else
            "exact")
    labels = [f"component={name}", f"stream={skind}", _bclass(b, w),
              f"chunks={'all1' if max(chunks) == 1 else 'le8' if max(chunks) <= 8 else 'large'}",
              f"n={'1-40' if n_total <= 40 else '41-200' if n_total <= 200 else '201+'}"]
    if kind == "window":
        labels.append(_wclass(w))
    has_nan = bool(np.isnan(util).any())
    labels.append(f"nan={has_nan}")

    granted = np.zeros(n_total, dtype=bool)
    reported = np.full(n_total, NAN)
    chunk_size_at = np.zeros(n_total, dtype=int)
    pos_in_chunk = np.zeros(n_total, dtype=int)
    own_est = []  # (start, u, t) of the manager's own estimate at chunk start
    progress = {"start": 0, "size": 0}
    viol = []

    def drive():
        drv = _Driver(case)
        start = 0
        for c in chunks:
            progress["start"], progress["size"] = start, c
            mgr = drv.manager()
            if kind == "window":
                own_est.append((start, float(getattr(mgr, "u_t_", 0.0)), 0))
            elif kind == "density":
                own_est.append((start, float(getattr(mgr, "u_", 0.0)),
                                int(getattr(mgr, "t_", 0))))
            idx, rep = drv.step(util[start:start + c])
            idx = np.asarray(idx, dtype=int).reshape(-1)
            if len(idx) and (idx.min() < 0 or idx.max() >= c
                             or len(np.unique(idx)) != len(idx)):
                raise ValueError(f"C04-harness: unusable indices {idx}")
            granted[start + idx] = True
            reported[start:start + c] = np.asarray(rep, dtype=float)
            chunk_size_at[start:start + c] = c
            pos_in_chunk[start:start + c] = np.arange(c)
            start += c

    ok, r = guarded(drive)
    if not ok and isinstance(r, CallTimeout):
        # the whole stream runs under one time bound; C04 makes no
        # termination claim, so a time-out is inconclusive, never a verdict
        return Outcome([], False, labels + ["time_budget_inconclusive"])
    if not ok:
        c = progress["size"]
        seg = util[progress["start"]:progress["start"] + c]
        trig = ("nan_utility" if np.isnan(seg).any() else
                "inf_utility" if np.isinf(seg).any() else "finite_utilities")
        if isinstance(r, ValueError) and str(r).startswith("C04-harness"):
            viol.append(Violation(name, "unusable_indices",
                                  f"chunk={'1' if c == 1 else '>1'}", str(r)))
        else:
            viol.append(exc_violation(
                name, r, f"{trig},chunk={'1' if c == 1 else '>1'}",
                f"chunk at {progress['start']} size {c}"))
        return Outcome(viol, False, labels + ["exception"])

    # (1) the count bound, at every prefix length
    ns = np.arange(1, n_total + 1)
    cum = np.cumsum(granted)
    bound = _bound(kind, b, w, ns)
    bad = np.flatnonzero(cum > bound + SLACK)
    if len(bad):
        i = int(bad[0])
        viol.append(Violation(
            name, "bound_exceeded",
            ("first_in_chunk" if pos_in_chunk[i] == 0 else "later_in_chunk")
            + (",nan_seen" if np.isnan(util[:i + 1]).any() else ""),
            f"n={i + 1}: {int(cum[i])} labels > bound {bound[i]:.6g} "
            f"(budget={b!r}, w={w}, chunk of {int(chunk_size_at[i])}, "
            f"position {int(pos_in_chunk[i])} in chunk); worst excess "
            f"{float(np.max(cum - bound)):.6g}"))
    near_bound = bool(np.any((cum >= 2) & (cum >= bound - 2)))

    # (2) independent replay of the documented estimate / counters
    g_list = granted.tolist()
    u_list = reported.tolist()
    binding = False
    boundary_seen = False
    guard_viol = None
    if kind == "window":
        theta_fixed = None
        if comp == "FixedUncertaintyBudgetManager":
            k = int(case["params"]["n_classes"])
            theta_fixed = 1 / k + b * (1 - 1 / k)
        decay = (w - 1) / w
        u = 0.0
        for i in range(n_total):
            est = u / w
            below = est < b
            if est == b:
                boundary_seen = True
            ui = u_list[i]
            if g_list[i]:
                if not below and guard_viol is None:
                    close = abs(est - b) <= 1e-12 * b
                    if not close or _exact_not_below(g_list[:i], w, b):
                        guard_viol = (i, est)
            elif not below and ui == ui:
                if comp == "RandomBudgetManager":
                    binding = True
                elif theta_fixed is not None:
                    binding = binding or (1 - ui) <= theta_fixed
                else:
                    binding = binding or ui >= 1.0
            u = u * decay + (1.0 if g_list[i] else 0.0)
    elif kind == "density":
        cnt = 0
        for i in range(n_total):
            est = cnt / (i + 1)
            below = est < b
            if est == b:
                boundary_seen = True
            ui = u_list[i]
            if g_list[i]:
                if not below and guard_viol is None:
                    guard_viol = (i, est)
                cnt += 1
            elif not below and ui == ui and ui >= 1.0:
                binding = True
    else:
        cnt = 0
        for i in range(n_total):
            left = (i + 1) * b - cnt
            ui = u_list[i]
            if g_list[i]:
                cnt += 1
            elif comp == "PeriodicSampling":
                binding = True
            elif left <= 1 and ui >= 1 - b:
                binding = True
    if guard_viol is not None:
        i, est = guard_viol
        trig = ("estimate==budget" if est == b else "estimate>budget")
        trig += (",first_in_chunk" if pos_in_chunk[i] == 0
                 else ",later_in_chunk")
        viol.append(Violation(
            name, "grant_while_estimate_not_below_budget", trig,
            f"instance {i} granted although the replayed estimate "
            f"{est!r} is not below budget {b!r} (w={w}, chunk of "
            f"{int(chunk_size_at[i])}, position {int(pos_in_chunk[i])}); "
            f"grants so far {int(cum[i]) - 1}"))

    # (3) the manager's own estimate, observable at chunk starts
    for start, u0, t0 in own_est:
        if not g_list[start]:
            continue
        est = u0 / w if kind == "window" else u0 / (t0 + 1)
        if not est < b:
            viol.append(Violation(
                name, "grant_while_own_estimate_not_below_budget",
                "estimate==budget" if est == b else "estimate>budget",
                f"instance {start} (first of its chunk) granted although "
                f"the manager's own estimate {est!r} >= budget {b!r}"))
            break

    labels += [f"binding={binding}", f"near_bound={near_bound}",
               f"boundary_equal_seen={boundary_seen}",
               f"grants={'0' if cum[-1] == 0 else 'all' if cum[-1] == n_total else 'some'}"]
    return Outcome(viol, binding or near_bound, labels)
