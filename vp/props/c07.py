"""C07 - multi-annotator pool query returns distinct, available
(sample, annotator) pairs; utilities are NaN exactly where they must be;
the annotator-assignment loop terminates."""
import numpy as np
from hypothesis import strategies as st

from .. import common
from ..common import Outcome, Violation, exc_site

PROPERTY_ID = "C07"
TECHNIQUE = ("Hypothesis-generated label matrices / candidate and annotator "
             "specifications (all nine candidates x annotators forms) against "
             "an availability matrix computed independently from the "
             "arguments; termination by a per-call alarm")
RULE = (
    "Cases: component in {SingleAnnotatorWrapper around RandomSampling, "
    "UncertaintySampling(lc/margin/entropy, PWC), ProbabilisticAL, "
    "QueryByCommittee(KL/vote entropy, PWC list), GreedyBALD, Falcun, CoreSet, "
    "GreedySamplingX; IntervalEstimationThreshold with "
    "AnnotatorEnsembleClassifier(hard/soft) or AnnotatorLogisticRegression} x "
    "X with 2-8 rows (continuous or lattice) x label matrix with 1-4 "
    "annotators, 2-3 classes and a drawn missing pattern x candidates "
    "(None / index array / feature rows) x annotators (None / index array / "
    "boolean matrix, rows without any available annotator in a separate "
    "class) x batch size in {1,2,3,#pairs,#pairs+3} (IET also 'adaptive') x "
    "n_annotators_per_sample (int or array) x A_perf (None / vector / matrix) "
    "x seeds. A small class has zero available pairs (clean rejection or "
    "empty result expected). Distinct = distinct case hash; non-trivial = "
    "batch_size >= 2 and the availability matrix is neither all-true nor "
    "all-false, or a candidate row without available annotator exists.")
RULE += (" Further generated dimensions (added while closing seeded "
         "changes): " + 'availability as bool or 0/1 integer matrix; annotator performances on large scales / float32; array-likes as nested lists' + ".")
ASSUMPTIONS = [
    "missing_label is NaN, classes are 0..K-1 (encodings are C09)",
    "index candidates are sorted and unique whenever a row-aligned argument "
    "(boolean annotators matrix, A_perf matrix) accompanies them "
    "(check_indices sorts and de-duplicates them)",
    "CoreSet as inner strategy only receives candidate samples whose "
    "aggregated label is missing (DESIGN appendix A: candidates must be "
    "unlabeled for CoreSet); feature-row candidates are unrestricted",
    "inner strategies with known duplicate-index defects under C01 "
    "(BatchBALD, TypiClust, Badge) are not wrapped here",
    "IntervalEstimationThreshold: k = min(batch_size, #available) is asserted "
    "only when every candidate sample has all or none of its annotators "
    "available ('assumes all annotators to be available and is not defined "
    "otherwise'); otherwise only distinctness / availability / k' <= k",
    "n_annotators_per_sample is asserted only when the premise 'sum of "
    "min(pref_j, avail_j) over the chosen samples >= k' follows from the "
    "input alone (k <= #candidate samples, or a lower bound over all "
    "candidate samples) and no candidate row is empty",
    "zero available pairs: ValueError/TypeError or an empty (0, 2) result "
    "are both accepted (undocumented); anything else is a violation",
    "a call on an input with an empty availability row is given "
    "min(3 s, call limit) instead of 20 s (typical cost 5-20 ms)",
]
PROFILE = {
    "quick": dict(examples=1000, shards=16, budget_s=110),
    "thorough": dict(examples=8000, shards=16, budget_s=1100),
}

NAN = float("nan")
EMPTY_ROW_LIMIT = 3.0

INNER = ["RandomSampling", "US_lc", "US_margin", "US_entropy", "PAL",
         "QBC_kl", "QBC_ve", "GreedyBALD", "Falcun", "CoreSet",
         "GreedySamplingX"]
IET_CLF = ["AEC_hard", "AEC_soft", "ALR"]


# ---------------------------------------------------------- generators ----
def _bits(draw, n, p10):
    """n booleans, each True with probability p10/10 (shrinks to False)."""
    xs = draw(st.lists(st.integers(0, 9), min_size=n, max_size=n))
    return [x < p10 for x in xs]


@st.composite
def _case(draw, force_comp=None, force_klass=None):
    comp = force_comp or draw(st.sampled_from(["SAW", "SAW", "SAW", "IET"]))
    zone = draw(st.integers(0, 99))
    klass = "regular"
    if zone < 3:
        klass = "zero_pairs"
    elif zone < (6 if comp == "SAW" else 25):
        klass = "empty_row"
    if force_klass:
        klass = force_klass
    n = draw(st.integers(2, 8))
    d = draw(st.integers(1, 2))
    na = draw(st.sampled_from([1, 2, 2, 3, 3, 4]))
    K = draw(st.sampled_from([2, 3]))
    if draw(st.booleans()):
        val = st.integers(-2, 2).map(float)
    else:
        val = st.floats(-4, 4, allow_nan=False).map(lambda v: round(v, 2))
    row = st.lists(val, min_size=d, max_size=d)
    X = draw(st.lists(row, min_size=n, max_size=n))

    cand_mode = draw(st.sampled_from(["none", "idx", "feat"]))
    annot_mode = draw(st.sampled_from(["none", "idx", "bool"]))
    if klass == "empty_row":
        annot_mode = "bool"
    if klass == "zero_pairs":
        if draw(st.booleans()):
            cand_mode, annot_mode = "none", "none"
        else:
            annot_mode = "bool"
    a_perf_kind = "none"
    if comp == "SAW":
        a_perf_kind = draw(st.sampled_from(
            ["none", "none", "none", "vector", "matrix"]))
    aligned = annot_mode == "bool" or a_perf_kind == "matrix"

    # ---- candidates
    candidates = None
    if cand_mode == "idx":
        if aligned or draw(st.booleans()):
            sel = _bits(draw, n, 5)
            candidates = [i for i in range(n) if sel[i]]
            if not candidates:
                candidates = [draw(st.integers(0, n - 1))]
        else:  # unsorted, possibly with repetitions
            candidates = draw(st.lists(st.integers(0, n - 1), min_size=1,
                                       max_size=n + 2))
        n_rows = n
        cand_rows = sorted(set(candidates))
    elif cand_mode == "feat":
        nc = draw(st.integers(1, 6))
        candidates = []
        for _ in range(nc):
            how = draw(st.integers(0, 2))
            if how == 0:
                candidates.append(list(X[draw(st.integers(0, n - 1))]))
            else:
                candidates.append(draw(row))
        n_rows = nc
        cand_rows = list(range(nc))
    else:
        n_rows = n
        cand_rows = list(range(n))
    n_cr = len(cand_rows)

    # ---- labels
    y_regime = draw(st.sampled_from(
        ["all_missing", "most_missing", "half", "few_missing", "rowwise",
         "none_missing"]))
    if comp == "IET" and cand_mode == "none" and annot_mode == "none":
        y_regime = draw(st.sampled_from(["rowwise", "rowwise", "half",
                                         "most_missing", "all_missing"]))
    p10 = {"all_missing": 10, "most_missing": 8, "half": 5,
           "few_missing": 2, "rowwise": 5, "none_missing": 0}[y_regime]
    if y_regime == "rowwise":
        rm = _bits(draw, n, p10)
        miss = [[rm[i]] * na for i in range(n)]
    else:
        flat = _bits(draw, n * na, p10)
        miss = [flat[i * na:(i + 1) * na] for i in range(n)]
    labs = draw(st.lists(st.integers(0, K - 1), min_size=n * na,
                         max_size=n * na))
    if cand_mode == "none" and annot_mode == "none":
        if klass == "zero_pairs":
            miss = [[False] * na for _ in range(n)]
        elif not any(any(r) for r in miss):
            miss[draw(st.integers(0, n - 1))][draw(st.integers(0, na - 1))] \
                = True
    y = [[NAN if miss[i][j] else float(labs[i * na + j])
          for j in range(na)] for i in range(n)]

    # ---- annotators
    annotators = None
    if annot_mode == "idx":
        if draw(st.booleans()):
            sel = _bits(draw, na, 5)
            annotators = [j for j in range(na) if sel[j]]
            if not annotators:
                annotators = [draw(st.integers(0, na - 1))]
        else:
            annotators = draw(st.lists(st.integers(0, na - 1), min_size=1,
                                       max_size=na + 1))
    elif annot_mode == "bool":
        if klass == "zero_pairs":
            annotators = [[False] * na for _ in range(n_cr)]
        else:
            m_regime = draw(st.sampled_from(
                ["dense", "half", "sparse", "all_or_none", "all_true"]))
            if comp == "IET" and draw(st.booleans()):
                m_regime = "all_or_none"
            if m_regime == "all_or_none":
                rows_on = _bits(draw, n_cr, 6)
                M = [[rows_on[i]] * na for i in range(n_cr)]
            else:
                q = {"dense": 8, "half": 5, "sparse": 2,
                     "all_true": 10}[m_regime]
                flat = _bits(draw, n_cr * na, q)
                M = [flat[i * na:(i + 1) * na] for i in range(n_cr)]
            if klass == "empty_row":
                # at least one empty row and at least one available pair
                # (n_cr == 1 cannot have both: keep the pair)
                e = draw(st.integers(0, n_cr - 1))
                M[e] = [False] * na
                if not any(any(r) for r in M):
                    others = [i for i in range(n_cr) if i != e] or [e]
                    r = others[draw(st.integers(0, len(others) - 1))]
                    M[r][draw(st.integers(0, na - 1))] = True
            else:
                for i in range(n_cr):
                    if not any(M[i]):
                        M[i][draw(st.integers(0, na - 1))] = True
            annotators = M

    # ---- component configuration
    inner = clf = None
    if comp == "SAW":
        inner = draw(st.sampled_from(INNER))
    else:
        clf = draw(st.sampled_from(IET_CLF))

    # ---- number of available pairs (for the batch-size menu only; the
    # oracle recomputes availability from the final arguments)
    if cand_mode == "none" and annot_mode == "none":
        n_avail = sum(sum(1 for v in r if v != v) for r in y)
    elif annot_mode == "bool":
        n_avail = sum(sum(r) for r in annotators)
    elif annot_mode == "idx":
        n_avail = n_cr * len(set(annotators))
    else:
        n_avail = n_cr * na
    menu = [1, 2, 2, 3, max(n_avail, 1), n_avail + 3,
            draw(st.integers(1, max(n_avail, 1))),
            draw(st.integers(1, max(n_avail, 1)))]
    if comp == "IET":
        menu.append("adaptive")
    batch_size = draw(st.sampled_from(menu))

    napp, napp_array = 1, False
    a_perf = None
    if comp == "SAW":
        if draw(st.booleans()):
            napp = draw(st.integers(1, na + 1))
        else:
            napp = draw(st.lists(st.integers(1, 4), min_size=1, max_size=4))
            napp_array = draw(st.booleans())
            if n_avail >= 3 and draw(st.booleans()):
                # reach beyond the end of the preference array
                batch_size = draw(st.integers(min(3, n_avail), n_avail))
        pv = st.one_of(st.integers(0, 3).map(float),
                       st.floats(-2, 2, allow_nan=False).map(
                           lambda v: round(v, 3)))
        if a_perf_kind == "vector":
            a_perf = draw(st.lists(pv, min_size=na, max_size=na))
        elif a_perf_kind == "matrix":
            nr = n if cand_mode == "none" else n_cr
            a_perf = draw(st.lists(st.lists(pv, min_size=na, max_size=na),
                                   min_size=nr, max_size=nr))

    return dict(
        component=comp, inner=inner, clf=clf, klass=klass,
        X=X, y=y, n_classes=K,
        cand_mode=cand_mode, candidates=candidates,
        annot_mode=annot_mode, annotators=annotators,
        batch_size=batch_size, napp=napp, napp_array=napp_array,
        A_perf=a_perf,
        # annotator performances may be given on any scale (e.g. counts of
        # correct labels) and as float32
        a_perf_scale=draw(st.sampled_from([1.0, 1.0, 1.0e5, 1.0e3])),
        a_perf_f32=draw(st.integers(0, 3)) == 0,
        return_utilities=draw(st.integers(0, 3)) > 0,
        as_list=draw(st.integers(0, 3)) == 0,
        annot_dtype=draw(st.sampled_from(["bool", "bool", "int01"])),
        seed=draw(st.integers(0, 2**31 - 1)),
        inner_seed=draw(st.integers(0, 2**31 - 1)),
    )


def case_strategy(tier, shard=0, nshards=1):
    return _case()


# ------------------------------------------------------------- helpers ----
def _guarded(fn, limit):
    """common.guarded with a per-call limit. Returns (ok, value|exc)."""
    try:
        with common.quiet(), common.time_limit(limit):
            return True, fn()
    except common.CallTimeout as e:
        return False, e
    except Exception as e:  # noqa
        return False, e


def _candidate_rows(case):
    n = len(case["X"])
    if case["cand_mode"] == "idx":
        return sorted(set(int(i) for i in case["candidates"]))
    if case["cand_mode"] == "feat":
        return list(range(len(case["candidates"])))
    return list(range(n))


def availability(case):
    """Availability matrix from the arguments alone (base-class docstring).

    Rows: samples of X (candidates None / indices) or candidate rows
    (feature candidates). Returns (AV, selectable_rows)."""
    y = np.array(case["y"], dtype=float)
    n, na = y.shape
    cm, am = case["cand_mode"], case["annot_mode"]
    rows = _candidate_rows(case)
    n_rows = len(case["candidates"]) if cm == "feat" else n
    AV = np.zeros((n_rows, na), dtype=bool)
    if cm == "none" and am == "none":
        AV = np.isnan(y)
        sel = [i for i in range(n) if AV[i].any()]
        return AV, sel
    if am == "none":
        for r in rows:
            AV[r, :] = True
    elif am == "idx":
        cols = sorted(set(int(j) for j in case["annotators"]))
        for r in rows:
            AV[r, cols] = True
    else:
        M = np.array(case["annotators"], dtype=bool).reshape(len(rows), na)
        for i, r in enumerate(rows):
            AV[r] = M[i]
    return AV, rows


def _apply_inner_preconditions(case, y):
    """Construction rule (not a filter): CoreSet requires candidate samples
    that are unlabeled in the aggregated label vector."""
    if case["component"] == "SAW" and case["inner"] == "CoreSet" \
            and case["cand_mode"] != "feat":
        if case["cand_mode"] == "none" and case["annot_mode"] == "none":
            rows = [i for i in range(len(y)) if np.isnan(y[i]).any()]
        else:
            rows = _candidate_rows(case)
        y = y.copy()
        y[rows, :] = np.nan
    return y


def _build(case, classes):
    from skactiveml.classifier import ParzenWindowClassifier as PWC
    s = case["inner_seed"]
    if case["component"] == "IET":
        from skactiveml.classifier.multiannotator import (
            AnnotatorEnsembleClassifier, AnnotatorLogisticRegression)
        from skactiveml.pool.multiannotator import IntervalEstimationThreshold
        na = len(case["y"][0])
        if case["clf"] == "ALR":
            clf = AnnotatorLogisticRegression(classes=classes, random_state=s)
        else:
            clf = AnnotatorEnsembleClassifier(
                estimators=[(f"pwc{j}", PWC(random_state=s + j))
                            for j in range(na)],
                voting="hard" if case["clf"] == "AEC_hard" else "soft",
                classes=classes, random_state=s)
        qs = IntervalEstimationThreshold(random_state=case["seed"])
        return qs, {"clf": clf}
    import skactiveml.pool as P
    from skactiveml.pool.multiannotator import SingleAnnotatorWrapper

    def clf():
        return PWC(classes=classes, random_state=s)

    def ens():
        return [PWC(classes=classes, metric_dict={"gamma": 0.3},
                    random_state=s),
                PWC(classes=classes, metric_dict={"gamma": 2.0},
                    random_state=s + 1)]

    name = case["inner"]
    if name == "RandomSampling":
        inner, kw = P.RandomSampling(random_state=s), {}
    elif name.startswith("US_"):
        m = {"US_lc": "least_confident", "US_margin": "margin_sampling",
             "US_entropy": "entropy"}[name]
        inner = P.UncertaintySampling(method=m, random_state=s)
        kw = {"clf": clf()}
    elif name == "PAL":
        inner, kw = P.ProbabilisticAL(random_state=s), {"clf": clf()}
    elif name.startswith("QBC_"):
        m = {"QBC_kl": "KL_divergence", "QBC_ve": "vote_entropy"}[name]
        inner = P.QueryByCommittee(method=m, random_state=s)
        kw = {"ensemble": ens()}
    elif name == "GreedyBALD":
        inner, kw = P.GreedyBALD(random_state=s), {"ensemble": ens()}
    elif name == "Falcun":
        inner, kw = P.Falcun(random_state=s), {"clf": clf()}
    elif name == "CoreSet":
        inner, kw = P.CoreSet(random_state=s), {}
    elif name == "GreedySamplingX":
        inner, kw = P.GreedySamplingX(random_state=s), {}
    else:
        raise common.HarnessError(f"unknown inner strategy {name}")
    qs = SingleAnnotatorWrapper(inner, random_state=case["seed"])
    napp = case["napp"]
    if isinstance(napp, list):
        napp = np.array(napp, dtype=int) if case["napp_array"] else list(napp)
    kw["n_annotators_per_sample"] = napp
    if case["A_perf"] is not None:
        ap = np.array(case["A_perf"], dtype=float) * float(
            case.get("a_perf_scale", 1.0))
        if case.get("a_perf_f32"):
            ap = ap.astype(np.float32)
        kw["A_perf"] = ap
    return qs, kw


def _trigger(case, empty_row):
    if empty_row:
        return "empty_availability_row"
    cm, am = case["cand_mode"], case["annot_mode"]
    if cm == "none" and am == "idx":
        return "candidates=None&annotators=index_array"
    names = {"none": "None", "idx": "index_array", "feat": "feature_rows",
             "bool": "bool_matrix"}
    return f"candidates={names[cm]}&annotators={names[am]}"


def _pref_check(case, pairs, AV, sel_rows, k, comp, trig):
    """n_annotators_per_sample: see ASSUMPTIONS. Returns (violations, label)."""
    avail = AV.sum(axis=1)
    n_sel = len(sel_rows)
    bsq = min(k, n_sel)
    napp = case["napp"]
    if isinstance(napp, list):
        pref = list(napp[:bsq])
        pref += [napp[-1]] * (bsq - len(pref))
    else:
        pref = [napp] * bsq
    if k > n_sel:
        # every candidate sample is chosen; the order is the strategy's, so
        # the premise must hold for every order
        lb = sum(min(min(pref), int(avail[r])) for r in sel_rows)
        if lb < k:
            return [], "pref_check=premise_open"
    runs = []  # (sample, count) in order of first appearance
    for s, _ in pairs:
        for q in runs:
            if q[0] == s:
                q[1] += 1
                break
        else:
            runs.append([s, 1])
    viol = []
    for j, (s, c) in enumerate(runs):
        if j >= len(pref):
            viol.append(Violation(
                comp, "more_samples_than_batch", trig,
                f"{len(runs)} samples in a batch of {k}: {pairs}"))
            break
        want = min(pref[j], int(avail[s]))
        last = j == len(runs) - 1
        if (c > want) or (not last and c != want):
            viol.append(Violation(
                comp, "annotators_per_sample_not_respected", trig,
                f"inner={case['inner']}: sample {s} (rank {j}) got {c} "
                f"annotators, preferred {pref[j]}, available "
                f"{int(avail[s])}; pairs {pairs}; napp={case['napp']}"))
            break
    return viol, "pref_check=asserted"


# -------------------------------------------------------------- oracle ----
def run_case(case):
    comp = ("SingleAnnotatorWrapper" if case["component"] == "SAW"
            else "IntervalEstimationThreshold")
    classes = list(range(case["n_classes"]))
    X = np.array(case["X"], dtype=float)
    y = _apply_inner_preconditions(case, np.array(case["y"], dtype=float))
    eff = dict(case)
    eff["y"] = y.tolist()
    AV, sel_rows = availability(eff)
    n_rows, na = AV.shape
    n_avail = int(AV.sum())
    empty_row = any(not AV[r].any() for r in sel_rows) and n_avail > 0
    trig = _trigger(case, empty_row)
    cm, am = case["cand_mode"], case["annot_mode"]
    bs = case["batch_size"]
    labels = [f"component={comp}",
              f"config={case['inner'] or case['clf']}",
              f"form={cm}/{am}",
              f"klass={'zero_pairs' if n_avail == 0 else 'empty_row' if empty_row else 'regular'}",
              f"n_annotators={na}"]

    if cm == "none":
        cand_arg = None
    elif cm == "idx":
        cand_arg = np.array(case["candidates"], dtype=int)
    else:
        cand_arg = np.array(case["candidates"], dtype=float)
    if am == "none":
        annot_arg = None
    elif am == "idx":
        annot_arg = np.array(case["annotators"], dtype=int)
    else:
        annot_arg = np.array(case["annotators"], dtype=bool).reshape(
            len(sel_rows) if cm != "none" else len(X), na)
        if case.get("annot_dtype") == "int01":
            # the availability matrix is an array-like that is converted to
            # bool: a 0/1 integer matrix is the same mask
            annot_arg = annot_arg.astype(int)
        labels.append(f"annot_dtype={case.get('annot_dtype') or 'bool'}")

    qs, kw = _build(case, classes)
    ret_u = bool(case["return_utilities"])
    as_list = bool(case.get("as_list"))
    labels.append(f"array_like={'list' if as_list else 'ndarray'}")

    def call():
        if as_list:  # array-likes given as nested Python lists
            return qs.query(
                X.tolist(), y.tolist(),
                candidates=None if cand_arg is None else cand_arg.tolist(),
                annotators=None if annot_arg is None else annot_arg.tolist(),
                batch_size=bs, return_utilities=ret_u, **kw)
        return qs.query(X.copy(), y.copy(), candidates=cand_arg,
                        annotators=annot_arg, batch_size=bs,
                        return_utilities=ret_u, **kw)

    limit = common.CALL_TIME_LIMIT
    if empty_row and case["component"] == "SAW":
        limit = min(EMPTY_ROW_LIMIT, limit)
    ok, r = _guarded(call, limit)

    # ---------------- zero available pairs: clean outcome
    if n_avail == 0:
        if not ok:
            if isinstance(r, common.CallTimeout):
                return Outcome([Violation(
                    comp, "non_termination", "zero_available_pairs",
                    f"no result within {limit}s")], False, labels)
            if isinstance(r, (ValueError, TypeError)):
                return Outcome([], False, labels + ["zero_pairs=rejected"])
            return Outcome([Violation(
                comp, f"exception:{type(r).__name__}@{exc_site(r)}",
                "zero_available_pairs", f"{type(r).__name__}: {r}")],
                False, labels)
        idx = np.asarray(r[0] if ret_u else r)
        if idx.size != 0:
            return Outcome([Violation(
                comp, "pair_returned_without_available_pair",
                "zero_available_pairs", f"{idx.tolist()}")], False, labels)
        return Outcome([], False, labels + ["zero_pairs=empty_result"])

    nontrivial = (empty_row or (
        (bs == "adaptive" or bs >= 2) and not AV.all() and AV.any()))
    if bs == "adaptive":
        labels.append("batch=adaptive")
    else:
        labels.append("batch=" + ("1" if bs == 1 else "clipped"
                                  if bs > n_avail else "all" if bs == n_avail
                                  else "2+"))
    if case["component"] == "SAW":
        labels.append("napp=" + ("array" if isinstance(case["napp"], list)
                                 else "1" if case["napp"] == 1 else "int>1"))
        labels.append("A_perf=" + ("none" if case["A_perf"] is None else
                                   "matrix" if isinstance(case["A_perf"][0],
                                                          list) else "vector"))
    labels.append(f"return_utilities={ret_u}")

    if not ok:
        if isinstance(r, common.CallTimeout):
            v = Violation(comp, "non_termination", trig,
                          f"inner={case['inner']}: query did not return "
                          f"within {limit}s (batch_size={bs}, availability="
                          f"{AV.astype(int).tolist()})")
        else:
            v = Violation(comp, f"exception:{type(r).__name__}@{exc_site(r)}",
                          trig, f"config={case['inner'] or case['clf']}: "
                                f"{type(r).__name__}: {r}")
        return Outcome([v], nontrivial, labels)

    viol = []
    if ret_u:
        if not (isinstance(r, tuple) and len(r) == 2):
            return Outcome([Violation(comp, "bad_result_type", trig,
                                      f"{type(r).__name__}")],
                           nontrivial, labels)
        idx, util = np.asarray(r[0]), np.asarray(r[1])
    else:
        idx, util = np.asarray(r), None

    # exact-k domain
    all_or_none = all(AV[r_].all() or not AV[r_].any() for r_ in sel_rows)
    if case["component"] == "SAW":
        k_exact, k_max = min(bs, n_avail), min(bs, n_avail)
    elif bs == "adaptive":
        k_exact, k_max = None, min(na, n_avail)
        labels.append(f"iet_domain={'exact' if all_or_none else 'open'}")
    else:
        k_max = min(bs, n_avail)
        k_exact = k_max if all_or_none else None
        labels.append(f"iet_domain={'exact' if all_or_none else 'open'}")

    if idx.ndim != 2 or idx.shape[1] != 2 or idx.dtype.kind not in "iu":
        if not (idx.size == 0 and k_exact is None):
            viol.append(Violation(
                comp, "bad_result_shape", trig,
                f"indices shape {idx.shape} dtype {idx.dtype}, expected "
                f"(k, 2) integer"))
            return Outcome(viol, nontrivial, labels)
        idx = idx.reshape(0, 2).astype(int)
    k = idx.shape[0]
    if k_exact is not None and k != k_exact:
        viol.append(Violation(
            comp, "wrong_number_of_pairs", trig,
            f"config={case['inner'] or case['clf']}: {k} pairs, expected "
            f"min(batch_size={bs}, available={n_avail})={k_exact}"))
    elif k > k_max:
        viol.append(Violation(comp, "too_many_pairs", trig,
                              f"{k} pairs, at most {k_max} allowed"))
    if (bs == "adaptive" and all_or_none and k < 1):
        viol.append(Violation(comp, "wrong_number_of_pairs", trig,
                              "adaptive batch returned no pair although "
                              "pairs are available"))
    pairs = [(int(a), int(b)) for a, b in idx.tolist()]
    bad_range = [p for p in pairs
                 if not (0 <= p[0] < n_rows and 0 <= p[1] < na)]
    if bad_range:
        viol.append(Violation(comp, "pair_out_of_range", trig,
                              f"{bad_range} for a ({n_rows},{na}) matrix"))
        return Outcome(viol, nontrivial, labels)
    if len(set(pairs)) != len(pairs):
        viol.append(Violation(comp, "duplicate_pair", trig,
                              f"config={case['inner'] or case['clf']}: "
                              f"{pairs}"))
    unavailable = [p for p in pairs if not AV[p]]
    if unavailable:
        viol.append(Violation(
            comp, "unavailable_pair", trig,
            f"config={case['inner'] or case['clf']}: pairs {unavailable} of "
            f"{pairs} are not available; availability="
            f"{AV.astype(int).tolist()}"))

    if util is not None:
        want = (k, n_rows, na)
        if util.shape != want:
            viol.append(Violation(comp, "bad_utilities_shape", trig,
                                  f"{util.shape}, expected {want}"))
        else:
            for i in range(k):
                row = util[i]
                if not np.isnan(row[~AV]).all():
                    pos = np.argwhere(~np.isnan(row) & ~AV)[:4].tolist()
                    viol.append(Violation(
                        comp, "utility_at_unavailable_pair", trig,
                        f"step {i}: numbers at unavailable pairs {pos}"))
                    break
                earlier = [p for p in pairs[:i] if not np.isnan(row[p])]
                if earlier:
                    viol.append(Violation(
                        comp, "earlier_pick_not_nan", trig,
                        f"step {i}: earlier picks {earlier} still carry a "
                        f"utility"))
                    break
                v = row[pairs[i]]
                if np.isnan(v):
                    viol.append(Violation(
                        comp, "selected_pair_has_nan_utility", trig,
                        f"step {i}: pair {pairs[i]}"))
                    break

    if case["component"] == "SAW" and not viol:
        if empty_row:
            labels.append("pref_check=skipped_empty_row")
        else:
            pv, lab = _pref_check(case, pairs, AV, sel_rows, k, comp, trig)
            viol += pv
            labels.append(lab)
    return Outcome(viol, nontrivial, labels)
