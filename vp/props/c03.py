"""C03 - stream query is a pure simulation (twin histories).

Two objects A and B are built from the same case.  A sees only the shared
`step` calls (query + update); B additionally sees extra / repeated query
calls.  After every single call the complete instance state of B must equal
the state of A (lazy initialisation by the very first call is legal, which is
why twin is compared against twin) and every shared call must return the
same result on both twins.
"""
import numpy as np
from hypothesis import strategies as st

from .. import streamreg as R
from ..common import (SAME, Outcome, Violation, arr_close, exc_violation,
                      guarded)

PROPERTY_ID = "C03"
TECHNIQUE = ("Hypothesis-generated operation sequences (step / extra / "
             "repeat) executed on twin objects; oracle = equality of all "
             "shared outputs and of the recursive by-value snapshot of the "
             "complete instance state after every call")
RULE = (
    "Case = component (13 stream strategies with all flag values, 7 concrete "
    "budget managers driven directly) x config (budget in {0.01,0.1,0.3,0.5,"
    "0.9,1.0}, windows in {1,2,5,20,100}, explicit or default manager) x "
    "training pool (2-8 rows, NaN labels) x op list (4-40 ops, <= 60 stream "
    "instances, chunks of 1-6; cognitive strategies step with chunks of 1). "
    "step: both twins query(chunk, training slice) then update; extra: B "
    "only, 1-3 queries on the next chunk / another chunk / another training "
    "slice / return_utilities toggled; repeat: B, same call twice. Distinct = "
    "distinct case hash; non-trivial = some extra or repeat is followed by a "
    "later step AND over the steps at least one label was granted and one "
    "denied (for managers with a random generator additionally an extra "
    "query was made while budget was left).")
RULE += (" Further generated dimensions (added while closing seeded "
         "changes): " + 'queried indices handed to update as int32 arrays; budgets with non-integer reciprocal; update-only warm-up; per-instance utility_weight' + ".")
ASSUMPTIONS = [
    "random_state is always an int (None would share numpy's global "
    "generator between the twins)",
    "classifiers: ParzenWindowClassifier(classes, random_state=0) or a "
    "row-wise stub frequency estimator; each call gets its own classifier "
    "object so the twins share no mutable argument",
    "the state that is compared is vars(obj) by value (constructor "
    "parameters, fitted attributes, nested budget manager, deques, "
    "RandomState state); callables are compared by qualified name",
    "cognitive strategies: step chunks have size 1 because their update is "
    "not total on larger chunks (C10); extra queries use any chunk size",
    "an exception raised by query/update on these valid inputs is reported "
    "as a violation of its own kind (the history cannot be evaluated)",
]
PROFILE = {
    "quick": dict(examples=400, shards=16, budget_s=110),
    "thorough": dict(examples=4000, shards=16, budget_s=1100),
}

MAX_INSTANCES = 60


# ------------------------------------------------------------ generator ----
@st.composite
def _case(draw):
    kind, name, cfg, classes = draw(R.component())
    spec = R.spec_of(kind, name)
    case = dict(kind=kind, name=name, config=cfg, classes=classes)
    cognitive = bool(spec.get("cognitive"))
    if kind == "strategy":
        regime = draw(st.sampled_from(["lattice", "lattice", "cont", "stub"]))
        d = 2 if regime == "stub" else draw(st.sampled_from([1, 2, 2]))
        case["clf"] = {"type": "stub" if regime == "stub" else "pwc"}
        X, y, w = draw(R.training_set(regime, d, classes, 2, 8))
        case["train_X"], case["train_y"], case["train_w"] = X, y, w
        max_step = 1 if cognitive else 6

        def chunk(mx):
            return st.integers(1, mx).flatmap(
                lambda n: R.rows(regime, d, n, n))
        needs_train = spec["clf"]
    else:
        nan_ok = spec["nan_ok"]
        high = draw(st.booleans())
        max_step = 6

        def chunk(mx):
            return st.integers(1, mx).flatmap(
                lambda n: R.utilities(n, n, nan_ok=nan_ok, high=high))
        needs_train = False

    nn = st.integers(0, 40)
    tr = ({"train": st.tuples(nn, nn).map(list), "fit_clf": st.booleans(),
           "sw": st.integers(0, 4).map(lambda v: v == 0)}
          if needs_train else {})
    step = st.fixed_dictionaries(
        {"op": st.just("step"), "rows": chunk(max_step), **tr})
    call = st.fixed_dictionaries(
        {"use_next": st.booleans(), "rows": chunk(6),
         "ru": st.booleans(),
         **({"same_train": st.booleans(), **tr} if needs_train else {})})
    extra = st.fixed_dictionaries(
        {"op": st.just("extra"),
         "calls": st.lists(call, min_size=1, max_size=3)})
    repeat = st.fixed_dictionaries({"op": st.just("repeat"), "call": call})
    n_ops = draw(st.sampled_from([12, 16, 24, 32, 40] if cognitive else
                                 [4, 6, 8, 12, 12, 16, 24, 32]))
    ops = draw(st.lists(st.one_of(step, step, step, extra, extra, repeat),
                        min_size=n_ops, max_size=n_ops))
    # Optional warm-up: the history starts with an `update` that was not
    # preceded by a `query` on twin A (observed instances are committed
    # without asking), while twin B may have answered an extra query first.
    no_util_update = not (
        name in ("StreamProbabilisticAL",
                 "BalancedIncrementalQuantileFilter"))
    if no_util_update and draw(st.integers(0, 3)) == 0:
        warm = {"op": "update_only", "rows": draw(chunk(1 if cognitive
                                                        else 3)),
                "queried": draw(st.sampled_from(["none", "all", "first"]))}
        if needs_train:
            warm.update(draw(st.fixed_dictionaries(tr)))
        head = [draw(extra)] if draw(st.booleans()) else []
        ops = head + [warm] + ops
    case["ops"] = ops
    case["arg_style"] = draw(st.sampled_from(R.ARG_STYLES))
    return case


def case_strategy(tier, shard=0, nshards=1):
    return _case()


# --------------------------------------------------------------- helpers ----
_state = R.state_of
_diff = R.state_diff


def _state_violation(comp, kind_prefix, sa, sb, trigger, where):
    d = _diff(sa, sb)
    if not d:
        return None
    keys = [k for k, _ in d]
    return Violation(comp, f"{kind_prefix}:{','.join(keys)}", trigger,
                     f"{where}: twin without / with the extra query calls "
                     f"differ in {keys}: {d[0][1]}")


def _q_list(q):
    return [int(i) for i in np.asarray(q).ravel().tolist()]


def _same_output(ra, rb):
    """ra, rb: (q, utilities_or_None). Returns None or a description."""
    qa, ua = ra
    qb, ub = rb
    try:
        la, lb = _q_list(qa), _q_list(qb)
    except Exception as e:  # malformed output: C10's business, but unequal?
        return f"unreadable queried_indices ({e})"
    if la != lb:
        return f"queried_indices {la} vs {lb}"
    if ua is not None and ub is not None:
        if not arr_close(ua, ub, **SAME):
            return (f"utilities {np.asarray(ua).tolist()} vs "
                    f"{np.asarray(ub).tolist()}")
    return None


class _World:
    """Resolves call specs of the case into live arguments."""

    def __init__(self, case):
        self.case = case
        self.kind = case["kind"]
        self.name = case["name"]
        self.spec = R.spec_of(self.kind, self.name)
        self.needs_train = self.kind == "strategy" and self.spec["clf"]
        if self.needs_train:
            self.X = np.asarray(case["train_X"], dtype=float)
            self.y = np.asarray(case["train_y"], dtype=float)
            self.w = np.asarray(case["train_w"], dtype=float)

    def chunk(self, rows):
        a = np.asarray(rows, dtype=float)
        return a if self.kind == "strategy" else a.ravel()

    def train_key(self, c):
        if not self.needs_train:
            return None
        lo, hi = R.train_slice(len(self.X), int(c["train"][0]),
                               int(c["train"][1]))
        return (lo, hi, bool(c["fit_clf"]), bool(c["sw"]))

    def args(self, rows, tkey):
        """Fresh argument dict (own arrays, own classifier) for one call."""
        kw = dict(chunk=self.chunk(rows))
        if self.needs_train:
            lo, hi, fit_clf, sw = tkey
            X = self.X[lo:hi].copy()
            y = self.y[lo:hi].copy()
            sample_weight = self.w[lo:hi].copy() if sw else None
            clf = R.build_clf(self.case["clf"], self.case["classes"])
            if not fit_clf:
                if sample_weight is None:
                    clf = clf.fit(X, y)
                else:
                    clf = clf.fit(X, y, sample_weight)
            kw.update(clf=clf, X=X, y=y, sample_weight=sample_weight,
                      fit_clf=fit_clf)
        return kw


def _normalise_ops(case):
    """Cap the history at MAX_INSTANCES stream instances."""
    ops, total = [], 0
    for op in case["ops"]:
        if op["op"] == "step":
            n = len(op["rows"])
            if total + n > MAX_INSTANCES:
                break
            total += n
        ops.append(op)
    return ops, total


# ---------------------------------------------------------------- oracle ----
def run_case(case):
    R.set_arg_style(case.get("arg_style"))
    try:
        out = _run_case(case)
    finally:
        R.set_arg_style(None)
    out.labels.append(f"arg_style={case.get('arg_style') or 'ndarray'}")
    return out


def _run_case(case):
    kind, name, cfg = case["kind"], case["name"], case["config"]
    comp = R.component_label(kind, name, cfg)
    spec = R.spec_of(kind, name)
    world = _World(case)
    ops, n_inst = _normalise_ops(case)
    step_pos = [i for i, op in enumerate(ops) if op["op"] == "step"]
    labels = [f"component={comp}", f"kind={kind}",
              f"budget={cfg.get('budget')}"]
    if kind == "strategy":
        labels.append(f"clf={case['clf']['type']}")
        labels.append("manager=explicit" if cfg.get("bm") else
                      "manager=default")
    viol = []

    def done(nontrivial=False):
        return Outcome(viol, nontrivial and not viol, labels)

    A = R.build(kind, name, cfg)
    B = R.build(kind, name, cfg)

    def next_step(i):
        for j in step_pos:
            if j > i:
                return ops[j]
        return None

    def train_rows(tkey):
        lo, hi = tkey[:2]
        return (case["train_X"][lo:hi],
                [None if v != v else v for v in case["train_y"][lo:hi]])

    def resolve(c, i):
        """(rows, train key, flavour) of an extra/repeat call at op i; the
        flavour compares the arguments BY VALUE with the next step's."""
        nxt = next_step(i)
        rows_ = nxt["rows"] if (c["use_next"] and nxt is not None) \
            else c["rows"]
        same_chunk = nxt is not None and rows_ == nxt["rows"]
        fl_chunk = "chunk=next" if same_chunk else "chunk=other"
        if not world.needs_train:
            return rows_, None, fl_chunk
        if c["same_train"] and nxt is not None:
            tkey = world.train_key(nxt)
        else:
            tkey = world.train_key(c)
        same = nxt is not None and (train_rows(tkey)
                                    == train_rows(world.train_key(nxt)))
        return rows_, tkey, f"{fl_chunk},train={'next' if same else 'other'}"

    a_init = False  # A has been called at least once
    b_calls = 0
    ref = None  # reference snapshot: state(A), or B right after its 1st call
    first_b_flavour = None  # flavour of B's first call if it was an extra
    granted = denied = 0
    flav_seen = set()
    extra_then_step = False
    pending_extra = False
    rng_extra_with_budget = False
    uses_rng_manager = R.MANAGERS[R.manager_name(kind, name, cfg)]["rng"] \
        if R.manager_name(kind, name, cfg) else False

    def budget_left(obj):
        bm = R.manager_of(kind, obj)
        try:
            if hasattr(bm, "u_t_"):
                return bool(bm.u_t_ / bm.w < bm.budget_)
            if hasattr(bm, "u_") and hasattr(bm, "t_"):
                return bool(bm.budget_ > bm.u_ / (bm.t_ + 1))
        except Exception:
            pass
        return None

    def b_query(rows_, tkey, ru, where, trigger):
        """One query on B; returns (ok, result)."""
        nonlocal b_calls
        kw = world.args(rows_, tkey)
        ok, r = guarded(R.call_query, kind, name, B, return_utilities=ru,
                        **kw)
        b_calls += 1
        if not ok:
            viol.append(exc_violation(comp, r, trigger, where))
        return ok, r

    def check_b(where, trigger):
        """B's state against the reference (if there is one)."""
        nonlocal ref
        if ref is None:
            ref = _state(B)  # lazy initialisation by B's first call
            return True
        v = _state_violation(comp, "state_differs", ref, _state(B), trigger,
                             where)
        if v is not None:
            viol.append(v)
            return False
        return True

    for i, op in enumerate(ops):
        if op["op"] == "update_only":
            n_rows = len(op["rows"])
            q = ([] if op["queried"] == "none" else
                 list(range(n_rows)) if op["queried"] == "all" else [0])
            okA, eA = guarded(R.call_update, kind, name, A,
                              world.chunk(op["rows"]), np.array(q, dtype=int),
                              None)
            okB, eB = guarded(R.call_update, kind, name, B,
                              world.chunk(op["rows"]), np.array(q, dtype=int),
                              None)
            if not okA or not okB:
                if okA == okB:
                    # the component does not accept an update without a
                    # preceding query: not a case of this property
                    labels.append("update_only_rejected")
                    return done()
                viol.append(exc_violation(
                    comp, eA if not okA else eB,
                    "update_without_query_after_extra", f"op {i} update"))
                return done()
            a_init = True
            ref = _state(A)
            v = _state_violation(
                comp, "state_differs_after_update", ref, _state(B),
                "update_without_preceding_query",
                f"op {i} after the stand-alone update")
            if v is not None:
                viol.append(v)
                return done()
            labels.append("update_without_preceding_query")
            continue
        if op["op"] == "step":
            tkey = world.train_key(op)
            trig_first = (f"first_call_extra[{first_b_flavour}]"
                          if (not a_init and first_b_flavour) else None)
            okA, rA = guarded(R.call_query, kind, name, A,
                              return_utilities=True,
                              **world.args(op["rows"], tkey))
            okB, rB = guarded(R.call_query, kind, name, B,
                              return_utilities=True,
                              **world.args(op["rows"], tkey))
            b_calls += 1
            if not okA or not okB:
                bad = rA if not okA else rB
                t = ("step_query" if (okA == okB) else
                     (trig_first or "step_query_after_extra"))
                viol.append(exc_violation(comp, bad, t, f"op {i} step query"))
                return done()
            trig = trig_first or "step_without_extra_since_equal_state"
            sA, sB = _state(A), _state(B)
            v = _state_violation(comp, "state_differs", sA, sB, trig,
                                 f"op {i} after the step query")
            if v is not None:
                viol.append(v)
                return done()
            d = _same_output(rA, rB)
            if d is not None:
                viol.append(Violation(
                    comp, "step_output_differs", trig,
                    f"op {i}: shared step query returned {d} (A vs B)"))
                return done()
            okA, eA = guarded(R.call_update, kind, name, A,
                              world.chunk(op["rows"]), rA[0], rA[1])
            okB, eB = guarded(R.call_update, kind, name, B,
                              world.chunk(op["rows"]), rB[0], rB[1])
            if not okA or not okB:
                viol.append(exc_violation(
                    comp, eA if not okA else eB,
                    f"update_of_query_result&chunk_size"
                    f"{'>1' if len(op['rows']) > 1 else '=1'}",
                    f"op {i} update"))
                return done()
            a_init = True
            ref = _state(A)
            v = _state_violation(comp, "state_differs_after_update", ref,
                                 _state(B), trig, f"op {i} after update")
            if v is not None:
                viol.append(v)
                return done()
            try:
                nq = len(set(_q_list(rA[0])))
            except Exception:
                nq = 0
            granted += nq
            denied += len(op["rows"]) - nq
            if pending_extra:
                extra_then_step = True
            continue

        calls = op["calls"] if op["op"] == "extra" else [op["call"]]
        for c in calls:
            rows_, tkey, flav = resolve(c, i)
            first_call = b_calls == 0
            if first_call:
                first_b_flavour = flav
            trigger = (f"{op['op']}[{flav}]" if not first_call else
                       f"first_call_extra[{flav}]")
            flav_seen.update(f"extra:{p}" for p in flav.split(","))
            if c["ru"]:
                flav_seen.add("extra:return_utilities")
            if len(rows_) > 1:
                flav_seen.add("extra:chunk>1")
            if uses_rng_manager and budget_left(B):
                rng_extra_with_budget = True
            ok, r1 = b_query(rows_, tkey, bool(c["ru"]),
                             f"op {i} {op['op']} query", trigger)
            if not ok:
                return done()
            if not check_b(f"op {i} after {op['op']} query", trigger):
                return done()
            if op["op"] == "repeat":
                flav_seen.add("repeat")
                ok, r2 = b_query(rows_, tkey, bool(c["ru"]),
                                 f"op {i} repeated query", trigger)
                if not ok:
                    return done()
                d = _same_output(r1, r2)
                if d is not None:
                    viol.append(Violation(
                        comp, "repeated_call_differs", trigger,
                        f"op {i}: the same query twice returned {d}"))
                    return done()
                if not check_b(f"op {i} after repeated query", trigger):
                    return done()
            pending_extra = True

    mixed = granted > 0 and denied > 0
    labels += sorted(flav_seen)
    labels.append("decisions=" + ("mixed" if mixed else "all_granted"
                                  if granted else "all_denied"))
    labels.append("extra_before_later_step=%s" % extra_then_step)
    if first_b_flavour is not None:
        labels.append("first_call_is_extra")
    ns = len(step_pos)
    labels.append("steps=" + ("0" if ns == 0 else "1-3" if ns <= 3 else
                              "4-9" if ns <= 9 else "10+"))
    labels.append("instances=" + ("<5" if n_inst < 5 else "5-20"
                                  if n_inst <= 20 else "21-60"))
    if any(len(op["rows"]) > 1 for op in ops if op["op"] == "step"):
        labels.append("step_chunk>1")
    if uses_rng_manager:
        labels.append(f"rng_extra_while_budget_left={rng_extra_with_budget}")
    nontrivial = extra_then_step and mixed and (
        rng_extra_with_budget or not uses_rng_manager)
    return done(nontrivial)
