"""C09 - results do not depend on how labels / missing labels are encoded."""
import copy

import numpy as np
from hypothesis import strategies as st

from .. import gen, poolreg, poolrun
from ..common import (Outcome, Violation, exc_violation, guarded, arr_close,
                      arr_equal_exact, DIFF)
from . import c01

PROPERTY_ID = "C09"
TECHNIQUE = ("Metamorphic relation over Hypothesis-generated cases: the same "
             "abstract labeling rendered in 7 (dtype, sentinel, class "
             "renaming) encodings must give identical indices, equal "
             "utilities / probabilities and re-encoded predictions")
RULE = (
    "Cases: (a) pool strategy registry entry x data set x label pattern x "
    "candidates x batch size x seed x target encoding in {float10/NaN, "
    "int/-1, int classes 3,5,8/99, object str/None, str/'zz', str/''} "
    "(regression: sentinel NaN vs. -999), compared with the (float, NaN) "
    "rendering; (b) classifiers and (c) stream strategies likewise (see "
    "c09_extra). Distinct = case hash. Non-trivial = encoding differs from "
    "(float, NaN) and the case has >= 1 labeled and >= 1 unlabeled sample.")
RULE += (" Further generated dimensions (added while closing seeded "
         "changes): " + 'classifier variation (GaussianNB, LogisticRegression, tree, class-prior Parzen window); alternative configurations; growing string widths (str_grow) twice' + ".")
ASSUMPTIONS = [
    "class renamings are strictly increasing, so sorted class order (and "
    "therefore column order) is preserved",
    "missing_label and classes are set consistently on the strategy and on "
    "every model argument",
    "indices are compared exactly, utilities with rtol=1e-6/atol=1e-8",
]
PROFILE = {
    "quick": dict(examples=2200, shards=16, budget_s=85),
    "thorough": dict(examples=16000, shards=16, budget_s=1100),
}

CLF_ENCODINGS = ["float10_nan", "int_m1", "int_99", "obj_none", "str_zz",
                 "str_empty", "str_long", "str_grow", "intarr_nan"]


def enc_class(enc):
    """Trigger predicate: what distinguishes the encoding from (float, NaN)."""
    return {"float10_nan": "numeric_classes_renamed",
            "int_99": "numeric_classes_renamed&numeric_sentinel",
            "int_m1": "numeric_sentinel", "num_m999": "numeric_sentinel",
            "obj_none": "string_labels&sentinel=None",
            "str_zz": "string_labels", "str_empty": "string_labels",
            "str_long": "string_labels",
            "intarr_nan": "integer_label_array&sentinel=NaN",
            "str_grow": "string_labels",
            "objnum_none": "object_numeric_labels&sentinel=None"}[enc]


@st.composite
def _pool_case(draw):
    name = draw(st.sampled_from(c01.all_names()))
    kw = {}
    if name.startswith("Parallel"):
        kw["batch_sizes"] = [1]
    case = draw(gen.pool_case([name], use_alt=True, vary_model=True, **kw))
    case["kind"] = "pool"
    if case["task"] == "reg":
        case["enc2"] = "num_m999"
    else:
        # str_grow twice: its interesting region (a declared, not yet observed
        # class name longer than every entry of y that is nevertheless
        # predicted) is a small part of the cases
        case["enc2"] = draw(st.sampled_from(CLF_ENCODINGS + ["str_grow"]))
    return case


def case_strategy(tier, shard=0, nshards=1):
    parts = [_pool_case()]
    try:
        from . import c09_extra
        parts += c09_extra.strategies(tier)
    except ImportError:
        pass
    return st.one_of(*parts)


def _run_pool(case):
    comp = case["entry"]
    yid = case["yid"]
    nlab = sum(1 for v in yid if v is not None)
    nunl = len(yid) - nlab
    labels = [f"component={comp}", f"enc={case['enc2']}",
              f"cand={case['cand']['mode']}"]
    c1 = copy.deepcopy(case)
    c1["enc"] = "float_nan"
    c2 = copy.deepcopy(case)
    c2["enc"] = case["enc2"]
    ok1, r1, _ = poolrun.run_query(c1, True)
    ok2, r2, _ = poolrun.run_query(c2, True)
    nontrivial = nlab >= 1 and nunl >= 1
    trig = enc_class(case["enc2"])
    if not ok1:
        return Outcome([], False, labels + ["base_query_raised"])
    if not ok2:
        return Outcome([exc_violation(comp, r2, trig, "query (re-encoded)")],
                       nontrivial, labels)
    q1, u1 = r1
    q2, u2 = r2
    viol = []
    q1 = np.asarray(q1).reshape(-1)
    q2 = np.asarray(q2).reshape(-1)
    if not arr_close(u1, u2, **DIFF):
        viol.append(Violation(comp, "utilities_differ", trig,
                              f"{np.asarray(u1).tolist()} vs "
                              f"{np.asarray(u2).tolist()}"))
    elif not arr_equal_exact(q1, q2):
        viol.append(Violation(comp, "indices_differ", trig,
                              f"{q1.tolist()} vs {q2.tolist()}"))
    return Outcome(viol, nontrivial, labels)


def run_case(case):
    if case.get("kind", "pool") == "pool":
        return _run_pool(case)
    from . import c09_extra
    return c09_extra.run_case(case)
