"""C11 - classifier outputs are valid probabilities and consistent decisions."""
import math

import numpy as np
from hypothesis import strategies as st

from .. import clfreg
from ..common import (HarnessError, Outcome, Violation, exc_violation,
                      guarded)

PROPERTY_ID = "C11"
TECHNIQUE = ("Hypothesis-generated classifier configurations, label encodings, "
             "degenerate label patterns, cost matrices and query points against "
             "an explicit oracle (simplex, sorted classes_, planted column "
             "order, cost-minimal decision, uniform cold start)")
RULE = (
    "Cases: component in {ParzenWindowClassifier (n_neighbors, gamma numeric/"
    "'mean'/default, prior scalar/array), MixtureModelClassifier (default / "
    "given GM/BGM, unfitted or prefitted; responsibilities/similarities), "
    "SklearnClassifier[GaussianNB, LogisticRegression, DecisionTree, "
    "SGD(log_loss), KNeighbors] incl. partial_fit for GaussianNB/SGD, "
    "SlidingWindowClassifier (window, only_labeled, fit+partial_fit), "
    "AnnotatorEnsembleClassifier (hard/soft, members with/without own "
    "classes), AnnotatorLogisticRegression} x class list (0..K-1 sorted/"
    "reversed, non-contiguous ints in any order, strings; K in 1..4; "
    "missing label NaN/-1/999/None/'zz'; declared or inferred) x training "
    "set (planted well-separated clusters | random rows with label pattern "
    "none/single class/declared-but-unobserved/full | zero rows) x sample "
    "weights x cost matrix (zero diagonal, non-negative, asymmetric) or None "
    "x query points (training rows, fresh points, far points). Distinct = "
    "distinct case hash; non-trivial = fewer observed than declared classes, "
    "or the cost-minimal class differs from the arg-max class on some query "
    "point, or no label at all.")
RULE += (" Further generated dimensions (added while closing seeded "
         "changes): " + 'every fit-protocol case also as the refit of an object fitted before on another fully labeled set; SklearnClassifier around an estimator the caller trained before wrapping; heterogeneous query batches with extrapolation rows' + ".")
ASSUMPTIONS = [
    "kernel metric is 'rbf' (positive kernel); other kernels may legitimately "
    "produce negative frequencies",
    "sample weights are positive (zeros only for the class-frequency "
    "estimators, where they mean 'no observation')",
    "MixtureModelClassifier gets n_samples >= max(2, n_components) rows or "
    "zero rows, or a prefitted mixture (scikit-learn precondition); a "
    "ValueError raised inside sklearn.mixture (collapsed samples) is a "
    "third-party rejection, labelled and not counted as a violation",
    "SklearnClassifier fallback branch (is_fitted_ == False): only membership "
    "of predict in classes_ and a positive probability are asserted",
    "partial_fit paths and SlidingWindowClassifier chunking are exercised "
    "with declared classes and non-empty chunks only",
    "planted column-order check: clusters at the corners of a 10x9 "
    "rectangle, jitter <= 0.5, query = one labeled training row per cluster, "
    "scalar class prior, weights in [0.5,3.5], no unlabeled rows when PWC "
    "limits the neighbours; for MixtureModelClassifier only when the fitted "
    "mixture separates the clusters (hard, class-pure responsibilities); not "
    "for SGDClassifier (its one-vs-rest models need not separate the "
    "clusters after a few epochs)",
    "row sums of a SklearnClassifier are required to equal the row sums of "
    "the wrapped estimator's own predict_proba when those deviate from one "
    "by more than 1e-9 (GaussianNB loses precision for near-constant "
    "features); the wrapper must preserve, not repair them",
    "hard voting: member predictions break ties with a stateful generator, "
    "so predict is compared with the predict_proba of an identically built "
    "and fitted twin (first call on both)",
    "SlidingWindowClassifier is configured with identical classes on wrapper "
    "and wrapped classifier; a cost matrix given only on the wrapper is a "
    "separately labelled class",
    "uniform cold start is not asserted for hard voting ensembles",
]
PROFILE = {
    "quick": dict(examples=4000, shards=16, budget_s=100),
    "thorough": dict(examples=60000, shards=16, budget_s=1100),
}

NAN = float("nan")
CORNERS = [(-5.0, -4.0), (5.0, -4.0), (5.0, 5.0), (-5.0, 5.0)]
STR_POOL = ["a", "b", "c", "d", "yes", "no", "B", "10", "2", "cat"]
WEIGHT_POOL = [0.5, 1.0, 1.0, 2.0, 3.5]
COST_POOL = [0.0, 0.5, 1.0, 1.0, 2.0, 5.0, 10.0]
COMPONENTS = ["PWC", "PWC", "PWC", "MMC", "MMC", "SKC", "SKC", "SKC", "SKC",
              "SWC", "SWC", "AEC", "AEC", "ALR", "ALR"]
SKC_ESTS = ["LogisticRegression", "DecisionTreeClassifier", "GaussianNB",
            "SGDClassifier", "LogisticRegression", "GaussianNB",
            "KNeighborsClassifier", "SGDClassifier"]

coord = st.integers(-400, 400).map(lambda v: v / 100.0)
lattice = st.integers(-2, 2).map(float)
jitter = st.integers(-50, 50).map(lambda v: v / 100.0)
seeds = st.integers(0, 2**16)


# --------------------------------------------------------------- generator --
@st.composite
def _encoding(draw):
    K = draw(st.sampled_from([1, 2, 2, 2, 3, 3, 3, 3, 3, 4]))
    style = draw(st.sampled_from(["arange", "arange_rev", "ints", "ints",
                                  "str", "str"]))
    if style == "arange":
        labels = list(range(K))
    elif style == "arange_rev":
        labels = list(range(K))[::-1]
    elif style == "ints":
        labels = draw(st.lists(st.integers(0, 20), min_size=K, max_size=K,
                               unique=True))
    else:
        labels = draw(st.lists(st.sampled_from(STR_POOL), min_size=K,
                               max_size=K, unique=True))
    if style in ("ints", "str"):
        order = draw(st.sampled_from(["asis", "sorted", "reversed"]))
        if order == "sorted":
            labels = sorted(labels)
        elif order == "reversed":
            labels = sorted(labels)[::-1]
    if style == "str":
        missing = draw(st.sampled_from([None, None, "zz"]))
    else:
        missing = draw(st.sampled_from([NAN, NAN, -1, 999]))
    return dict(K=K, style=style, labels=labels, missing=missing)


@st.composite
def _prior(draw, K, allow_array):
    kind = draw(st.sampled_from(["zero", "zero", "scalar", "array"]))
    if kind == "array" and not allow_array:
        kind = "scalar"
    if kind == "zero":
        return 0.0
    if kind == "scalar":
        return draw(st.sampled_from([0.5, 1.0, 3.0]))
    return draw(st.lists(st.sampled_from([0.0, 0.0, 0.5, 1.0, 4.0]),
                         min_size=K, max_size=K))


@st.composite
def _cost(draw, K):
    rows = []
    for i in range(K):
        r = draw(st.lists(st.one_of(st.sampled_from(COST_POOL),
                                    st.integers(0, 1000).map(
                                        lambda v: v / 100.0)),
                          min_size=K, max_size=K))
        r[i] = 0.0
        rows.append(r)
    return rows


def _base_cfg(kind, enc, declared, cost, rs, params):
    return {"kind": kind,
            "classes": list(enc["labels"]) if declared else None,
            "missing_label": enc["missing"],
            "cost_matrix": cost,
            "random_state": rs,
            "params": params}


@st.composite
def _sk_spec(draw, name):
    params = {}
    if clfreg.SK_CLASSIFIERS[name]["random_state"]:
        params["random_state"] = draw(seeds)
    return {"name": name, "params": params}


@st.composite
def _pwc_params(draw, K, allow_array, planted):
    gamma = draw(st.sampled_from([None, 0.1, 0.5, 1.0, 2.0, "mean", "mean"]))
    md = None if gamma is None else {"gamma": gamma}
    prior = draw(_prior(K, allow_array and not planted))
    return {"n_neighbors": draw(st.sampled_from([None, None, 1, 2, 5])),
            "metric": "rbf", "metric_dict": md, "class_prior": prior}


@st.composite
def _inner_cfg(draw, enc, declared, cost, which=None):
    """A single-annotator classifier used inside SWC / AEC."""
    which = which or draw(st.sampled_from(["PWC", "GNB", "DT"]))
    if which == "PWC":
        gamma = draw(st.sampled_from([None, 0.5, 1.0]))
        params = {"metric_dict": None if gamma is None else {"gamma": gamma},
                  "class_prior": draw(st.sampled_from([0.0, 0.0, 1.0]))}
        return _base_cfg("ParzenWindowClassifier", enc, declared, cost,
                         draw(seeds), params)
    name = {"GNB": "GaussianNB", "DT": "DecisionTreeClassifier"}[which]
    return _base_cfg("SklearnClassifier", enc, declared, cost, draw(seeds),
                     {"estimator": draw(_sk_spec(name))})


@st.composite
def _rows(draw, n, d):
    regime = draw(st.sampled_from(["cont", "cont", "lattice", "const_col"]))
    elem = lattice if regime == "lattice" else coord
    X = [draw(st.lists(elem, min_size=d, max_size=d)) for _ in range(n)]
    if regime == "const_col" and n:
        c = draw(st.integers(0, d - 1))
        for r in X:
            r[c] = X[0][c]
    return X


@st.composite
def _case(draw):
    comp = draw(st.sampled_from(COMPONENTS))
    enc = draw(_encoding())
    K, labels = enc["K"], enc["labels"]
    multi = comp in ("AEC", "ALR")
    A = draw(st.integers(1, 3)) if multi else None
    declared = draw(st.integers(0, 5)) > 0
    mode = draw(st.sampled_from(["planted", "planted", "random", "random",
                                 "random", "zero_rows"]))
    if mode == "zero_rows":
        declared = True
    cost = None
    if declared and draw(st.booleans()):
        cost = draw(_cost(K))
    fit_method = "fit"
    tags = []

    # ---------------------------------------------------- configuration --
    rs = draw(seeds)
    planted = mode == "planted"
    if comp == "PWC":
        cfg = _base_cfg("ParzenWindowClassifier", enc, declared, cost, rs,
                        draw(_pwc_params(K, declared, planted)))
    elif comp == "MMC":
        mix = draw(st.sampled_from(["default", "default", "GM", "BGM",
                                    "prefit"]))
        if mix == "prefit" and mode != "random":
            mix = "GM"
        spec = None
        if mix != "default":
            spec = {"type": draw(st.sampled_from(["GM", "BGM"]))
                    if mix == "prefit" else mix,
                    "n_components": draw(st.integers(1, 3)),
                    "random_state": draw(seeds), "prefit": None}
        cfg = _base_cfg("MixtureModelClassifier", enc, declared, cost, rs, {
            "mixture": spec,
            "weight_mode": draw(st.sampled_from(["responsibilities",
                                                 "similarities"])),
            "class_prior": draw(_prior(K, declared and not planted))})
        if mix == "prefit":
            tags.append("prefit")
    elif comp == "SKC":
        name = draw(st.sampled_from(SKC_ESTS))
        cfg = _base_cfg("SklearnClassifier", enc, declared, cost, rs,
                        {"estimator": draw(_sk_spec(name))})
        if (declared and clfreg.SK_CLASSIFIERS[name]["partial_fit"]
                and draw(st.booleans())):
            fit_method = "partial_fit"
    elif comp == "SWC":
        wrapper_only = (cost is not None and draw(st.integers(0, 7)) == 0)
        inner = draw(_inner_cfg(enc, declared,
                                None if wrapper_only else cost))
        cfg = _base_cfg("SlidingWindowClassifier", enc, declared, cost, rs, {
            "estimator": inner,
            "window_size": (draw(st.sampled_from([None, None, 1, 3, 6]))
                            if declared else None),
            "only_labeled": draw(st.booleans())})
        if wrapper_only:
            tags.append("cost_on_wrapper_only")
        if declared and draw(st.booleans()):
            fit_method = "partial_fit"
    elif comp == "AEC":
        member_classes = declared and draw(st.integers(0, 5)) == 0
        members = [draw(_inner_cfg(enc, member_classes, None))
                   for _ in range(A)]
        cfg = _base_cfg("AnnotatorEnsembleClassifier", enc, declared, cost,
                        rs, {"estimators": members,
                             "voting": draw(st.sampled_from(["hard",
                                                             "soft"]))})
        if member_classes:
            tags.append("member_classes")
    else:
        cfg = _base_cfg("AnnotatorLogisticRegression", enc, declared, cost,
                        rs, {
            "n_annotators": A if (mode == "zero_rows"
                                  or draw(st.booleans())) else None,
            "max_iter": draw(st.integers(1, 3)),
            "solver_dict": {"maxiter": 5},
            "fit_intercept": draw(st.booleans()),
            "weights_prior": draw(st.sampled_from([0.5, 1, 1, 10.0])),
            "annot_prior_full": draw(st.sampled_from([1, 1, 2.0])),
            "annot_prior_diag": draw(st.sampled_from([0, 0, 1.0]))})

    # ------------------------------------------------------------- data --
    planted_cls = None
    if mode == "zero_rows":
        X, y, d = [], [], draw(st.integers(1, 3))
    elif mode == "planted":
        d = 2
        k_obs = draw(st.integers(1, K)) if declared else K
        cls_perm = draw(st.permutations(list(range(K))))
        obs = sorted(cls_perm[:k_obs])
        corner_perm = draw(st.permutations(list(range(4))))
        rows = []
        centres = []
        reps = []
        for j, c in enumerate(obs):
            cx, cy = CORNERS[corner_perm[j]]
            centres.append([cx, cy])
            for t in range(draw(st.integers(2, 3))):
                rows.append(([round(cx + draw(jitter), 2),
                              round(cy + draw(jitter), 2)], c))
                if t == 0:
                    reps.append(list(rows[-1][0]))
        n_extra = draw(st.integers(0, 2))
        if comp == "PWC" and cfg["params"]["n_neighbors"] is not None:
            n_extra = 0  # neighbours are counted among all rows
        need = 0
        if comp == "MMC":
            mm = cfg["params"]["mixture"]
            need = max(2, K if mm is None else mm["n_components"])
        n_extra = max(n_extra, need - len(rows))
        for _ in range(n_extra):
            cx, cy = centres[draw(st.integers(0, len(centres) - 1))]
            rows.append(([round(cx + draw(jitter), 2),
                          round(cy + draw(jitter), 2)], -1))
        rows = draw(st.permutations(rows))
        X = [r[0] for r in rows]
        y = [r[1] for r in rows]
        if multi:
            y = [[c] * A for c in y]
        planted_cls = list(obs)
    else:
        d = draw(st.integers(1, 3))
        n_min = 1
        if comp == "MMC" and "prefit" not in tags:
            mm = cfg["params"]["mixture"]
            n_min = max(2, K if mm is None else mm["n_components"])
        n = draw(st.integers(n_min, max(n_min, 10)))
        X = draw(_rows(n, d))
        if declared:
            pattern = draw(st.sampled_from(["no_labels", "single",
                                            "unobserved", "full", "full"]))
        else:
            pattern = draw(st.sampled_from(["single", "full", "full"]))
        cls_perm = draw(st.permutations(list(range(K))))
        if pattern == "no_labels":
            allowed = []
        elif pattern == "single":
            allowed = [cls_perm[0]]
        elif pattern == "unobserved" and K >= 2:
            allowed = sorted(cls_perm[:draw(st.integers(1, K - 1))])
        else:
            allowed = list(range(K))
        pool = allowed + [-1] if allowed else [-1]
        if multi:
            y = [draw(st.lists(st.sampled_from(pool), min_size=A,
                               max_size=A)) for _ in range(n)]
            if allowed and all(v < 0 for r in y for v in r):
                y[0][0] = allowed[0]
        else:
            y = draw(st.lists(st.sampled_from(pool), min_size=n, max_size=n))
            if allowed and all(v < 0 for v in y):
                y[0] = allowed[0]
        if comp == "MMC" and "prefit" in tags:
            m = cfg["params"]["mixture"]["n_components"]
            cfg["params"]["mixture"]["prefit"] = draw(
                _rows(draw(st.integers(max(2, m), 6)), d))

    # ---------------------------------------------------------- weights --
    w = None
    n = len(X)
    if n and clfreg.accepts_sample_weight(cfg) and draw(st.booleans()):
        pool = list(WEIGHT_POOL)
        if comp in ("PWC", "MMC") and not planted:
            pool = pool + [0.0]
        ws = st.sampled_from(pool)
        if multi:
            w = [draw(st.lists(ws, min_size=A, max_size=A)) for _ in range(n)]
        else:
            w = draw(st.lists(ws, min_size=n, max_size=n))

    # ----------------------------------------------------------- chunks --
    split = None
    if fit_method == "partial_fit":
        if n >= 2 and draw(st.booleans()):
            split = draw(st.integers(1, n - 1))
        if n == 0:
            fit_method = "fit"

    # ---------------------------------------------------------- queries --
    if planted:
        Xq = [list(r) for r in reps]
    else:
        nq = draw(st.integers(1, 4))
        Xq = []
        for _ in range(nq):
            kind = draw(st.sampled_from(["fresh", "fresh", "train", "far",
                                         "very_far"]))
            if kind == "train" and n:
                Xq.append(list(X[draw(st.integers(0, n - 1))]))
            elif kind == "far":
                sign = draw(st.sampled_from([-1.0, 1.0]))
                Xq.append([sign * 60.0] * d)
            elif kind == "very_far":
                # heterogeneous batches: extrapolation rows next to ordinary
                # rows (linear scores differ by orders of magnitude)
                sign = draw(st.sampled_from([-1.0, 1.0]))
                mag = draw(st.sampled_from([600.0, 1.0e4]))
                Xq.append([sign * mag] + [0.0] * (d - 1))
            else:
                Xq.append(draw(st.lists(coord, min_size=d, max_size=d)))

    case = dict(component=clfreg.label(cfg), cfg=cfg, labels=list(labels),
                declared=declared, mode=mode, X=X, y=y, w=w,
                fit_method=fit_method, split=split, Xq=Xq,
                planted_cls=planted_cls, tags=tags)
    # "after fit on ANY admissible training set" includes a fit of an object
    # that was fitted before: an earlier, fully labeled training set
    if ((fit_method == "fit" or comp == "SWC")
            and draw(st.integers(0, 3)) == 0):
        dq = len(Xq[0])
        n0 = draw(st.integers(4, 6))
        if comp == "MMC":
            mm = cfg["params"]["mixture"]
            n0 = max(n0, K if mm is None else mm["n_components"])
        X0 = draw(_rows(n0, dq))
        perm = draw(st.permutations(list(range(K))))
        y0 = [perm[i % K] for i in range(n0)]
        if multi:
            y0 = [[c] * A for c in y0]
        case["prior_fit"] = {"X": X0, "y": y0}
    if comp == "SKC" and K >= 2 and fit_method == "fit" and \
            draw(st.integers(0, 3)) == 0:
        # the wrapped scikit-learn estimator was trained by the caller before
        # it was wrapped (every class seen); fit must not keep that model
        dq = len(Xq[0])
        n0 = 2 * K + draw(st.integers(0, 2))
        perm = draw(st.permutations(list(range(K))))
        shift = draw(st.sampled_from([0.0, 1.5, -3.0]))
        # pairwise distinct rows with spread in every feature and two samples
        # per class: the caller's own training set is not degenerate (zero
        # variance makes scikit-learn's GaussianNB return NaN - KF-C11-6)
        cfg["params"]["estimator"]["prefit"] = {
            "X": [[shift + 0.75 * i * (-1) ** i + 0.3 * j * (i % 3)
                   for j in range(1, dq + 1)] for i in range(n0)],
            "y": [labels[perm[i % K]] for i in range(n0)]}
        tags.append("inner_prefit")
    return case


def case_strategy(tier, shard=0, nshards=1):
    return _case()


# ------------------------------------------------------------------ oracle --
def _effective_rows(case):
    """Indices of the training rows the fitted model is based on."""
    n = len(case["X"])
    idx = list(range(n))
    cfg = case["cfg"]
    if cfg["kind"] != "SlidingWindowClassifier":
        return idx
    p = cfg["params"]
    if p.get("only_labeled"):
        idx = [i for i in idx if _row_labeled(case["y"][i])]
    ws = p.get("window_size")
    split = case.get("split")
    if case["fit_method"] == "partial_fit" and split is not None:
        first = [i for i in idx if i < split]
        second = [i for i in idx if i >= split]
        if ws is not None:
            first = first[-ws:]
        idx = first + second
    if ws is not None:
        idx = idx[-ws:]
    return idx


def _row_labeled(v):
    if isinstance(v, list):
        return any(x >= 0 for x in v)
    return v >= 0


def _observed(case, rows):
    out = set()
    for i in rows:
        v = case["y"][i]
        for x in (v if isinstance(v, list) else [v]):
            if x >= 0:
                out.add(int(x))
    return sorted(out)


def _fit(clf, case, X, y, w):
    """Run the fit protocol of the case."""
    kw = lambda a, b: {} if w is None else {"sample_weight": w[a:b]}
    n = len(X)
    if case["fit_method"] == "fit":
        return clf.fit(X, y, **kw(0, n))
    split = case.get("split")
    parts = [(0, n)] if split is None else [(0, split), (split, n)]
    if case["cfg"]["kind"] == "SlidingWindowClassifier":
        a, b = parts[0]
        clf.fit(X[a:b], y[a:b], **kw(a, b))
        for a, b in parts[1:]:
            clf.partial_fit(X[a:b], y[a:b], **kw(a, b))
        return clf
    for a, b in parts:
        clf.partial_fit(X[a:b], y[a:b], **kw(a, b))
    return clf


def _fallback(clf, cfg):
    """True iff predictions come from SklearnClassifier's documented label
    distribution fallback."""
    if cfg["kind"] == "SklearnClassifier":
        return not bool(getattr(clf, "is_fitted_", True))
    if cfg["kind"] == "SlidingWindowClassifier":
        inner = cfg["params"]["estimator"]
        if inner["kind"] == "SklearnClassifier":
            return not bool(getattr(clf.estimator_, "is_fitted_", True))
    return False


def _estimator_proba_nan(clf, cfg, Xq):
    """True iff the wrapped scikit-learn estimator itself returns NaN
    probabilities on the query points (SklearnClassifier.predict_proba then
    switches to the label distribution)."""
    sk = None
    if cfg["kind"] == "SklearnClassifier":
        sk = clf
    elif (cfg["kind"] == "SlidingWindowClassifier" and
          cfg["params"]["estimator"]["kind"] == "SklearnClassifier"):
        sk = clf.estimator_
    if sk is None:
        return False
    ok, P = guarded(sk.estimator_.predict_proba, Xq)
    return bool(ok and np.any(np.isnan(np.asarray(P, dtype=float))))


def _estimator_row_sums(clf, cfg, Xq):
    sk = None
    if cfg["kind"] == "SklearnClassifier":
        sk = clf
    elif (cfg["kind"] == "SlidingWindowClassifier" and
          cfg["params"]["estimator"]["kind"] == "SklearnClassifier"):
        sk = clf.estimator_
    if sk is None:
        return None
    ok, P = guarded(sk.estimator_.predict_proba, Xq)
    if not ok:
        return None
    return np.asarray(P, dtype=float).sum(axis=1)


def _raised_in_sklearn_mixture(exc):
    import traceback
    if not isinstance(exc, ValueError):
        return False
    tb = traceback.extract_tb(exc.__traceback__)
    return bool(tb) and "/sklearn/mixture/" in tb[-1].filename.replace(
        "\\", "/")


def _zero_variance_rows(case, eff):
    """Input predicate: all labeled rows the (first) fit of the wrapped
    estimator sees are identical (GaussianNB: variance floor 0)."""
    rows = [i for i in eff if _row_labeled(case["y"][i])]
    if (case["cfg"]["kind"] == "SklearnClassifier"
            and case["fit_method"] == "partial_fit"
            and case.get("split") is not None):
        # GaussianNB fixes its variance floor in the first partial_fit
        first = [i for i in rows if i < case["split"]]
        rows = first or rows
    rows = [case["X"][i] for i in rows]
    return bool(rows) and all(r == rows[0] for r in rows)


def _prior_of(cfg):
    if cfg["kind"] in clfreg.CLASS_FREQUENCY_KINDS:
        return cfg["params"].get("class_prior", 0.0)
    if cfg["kind"] == "SlidingWindowClassifier":
        return _prior_of(cfg["params"]["estimator"])
    return None


def _mixture_separates(clf, X, y_idx, Xq, planted_cls):
    """MMC planted check applies only if the fitted mixture puts every
    cluster (and its centre) into its own component with hard, class-pure
    responsibilities."""
    mm = clf.mixture_model_
    R = mm.predict_proba(np.asarray(X, dtype=float))
    Rq = mm.predict_proba(np.asarray(Xq, dtype=float))
    if not (np.all(np.isfinite(R)) and np.all(np.isfinite(Rq))):
        return False
    if R.max(axis=1).min() < 1 - 1e-6 or Rq.max(axis=1).min() < 1 - 1e-6:
        return False
    comp = R.argmax(axis=1)
    comp_q = Rq.argmax(axis=1)
    for i, c in enumerate(planted_cls):
        members = [y_idx[r] for r in range(len(X)) if comp[r] == comp_q[i]
                   and y_idx[r] >= 0]
        if not members or any(m != c for m in members):
            return False
    return True


def run_case(case):
    out = _run_once(case)
    if case.get("prior_fit") is None:
        return out
    out.labels.append("also_as_refit")
    if out.violations:
        return out  # reported as for a fresh object
    again = _run_once(case, refit=True)
    for v in again.violations:
        v.trigger += "&after_earlier_fit"
    again.labels = out.labels + [l for l in again.labels
                                 if l.startswith("prior_fit")]
    again.nontrivial = out.nontrivial
    return again


def _run_once(case, refit=False):
    cfg = case["cfg"]
    comp = clfreg.label(cfg)
    kind = cfg["kind"]
    labels = case["labels"]
    declared = case["declared"]
    tags = list(case.get("tags") or [])
    multi = clfreg.is_multi_annotator(cfg)
    viol = []

    n = len(case["X"])
    d = len(case["Xq"][0])
    X = np.array(case["X"], dtype=float).reshape(n, d) if n else []
    y = clfreg.make_y(case["y"], labels, cfg["missing_label"]) if n else []
    w = None if case["w"] is None else np.array(case["w"], dtype=float)
    Xq = np.array(case["Xq"], dtype=float)
    nq = len(Xq)

    eff = _effective_rows(case)
    observed = _observed(case, eff)
    class_labels = (list(labels) if declared
                    else [labels[i] for i in observed])
    if not class_labels:
        raise HarnessError("generator produced neither classes nor labels")
    want_classes = sorted(class_labels)
    K = len(want_classes)
    arange = clfreg.is_arange(want_classes)
    no_labels = len(observed) == 0
    has_cost = cfg.get("cost_matrix") is not None
    fully_unlabeled = (multi and n > 0 and any(
        not _row_labeled(r) for r in case["y"]) and not no_labels)

    pattern = ("zero_rows" if n == 0 else "no_labels" if no_labels else
               "single_class" if len(observed) == 1 and K > 1 else
               "unobserved_declared" if len(observed) < K else "all_observed")
    lab = [f"component={comp}", f"mode={case['mode']}", f"pattern={pattern}",
           f"K={K}", f"classes={'arange' if arange else 'str' if isinstance(want_classes[0], str) else 'ints'}",
           f"order={'sorted' if class_labels == want_classes else 'reversed' if class_labels == want_classes[::-1] else 'shuffled'}",
           f"declared={declared}", f"cost={has_cost}",
           f"weights={w is not None}", f"fit={case['fit_method']}"]
    lab += [f"tag={t}" for t in tags]
    if kind == "ParzenWindowClassifier":
        md = cfg["params"].get("metric_dict") or {}
        lab.append(f"pwc_gamma={'mean' if md.get('gamma') == 'mean' else 'num' if 'gamma' in md else 'default'}")
        lab.append(f"pwc_nn={cfg['params'].get('n_neighbors') is not None}")
    if kind in clfreg.CLASS_FREQUENCY_KINDS:
        pr = cfg["params"].get("class_prior", 0.0)
        lab.append(f"prior={'array' if isinstance(pr, list) else 'zero' if pr == 0 else 'scalar'}")
    if kind == "MixtureModelClassifier":
        mm = cfg["params"].get("mixture")
        lab.append(f"mixture={'default' if mm is None else mm['type'] + ('-prefit' if mm.get('prefit') is not None else '')}")

    # input predicates that explain the defects already known
    if kind == "AnnotatorEnsembleClassifier":
        if "member_classes" in tags and not arange:
            trig = "member_classes&classes!=arange"
        elif cfg["params"]["voting"] == "hard" and not arange:
            trig = "hard&classes!=arange"
        else:
            trig = "valid_input"
    elif kind == "AnnotatorLogisticRegression":
        trig = ("sample_weight&fully_unlabeled_row"
                if (w is not None and fully_unlabeled) else "valid_input")
    elif (kind == "ParzenWindowClassifier" and n == 0 and
          (cfg["params"].get("metric_dict") or {}).get("gamma") == "mean"):
        trig = "gamma=mean&zero_rows"
    else:
        trig = "valid_input"

    def done(nontrivial=False):
        return Outcome(viol, nontrivial and not viol, lab)

    # ------------------------------------------------------------- fit --
    ok, clf = guarded(clfreg.build, cfg)
    if not ok:
        if kind == "MixtureModelClassifier" and _raised_in_sklearn_mixture(
                clf):
            # pre-fitting the caller's mixture on degenerate data is rejected
            # by scikit-learn itself: not a case of the property
            lab.append("mixture_prefit_rejected_by_sklearn")
            return done()
        raise HarnessError(f"cannot build {comp}: {clf!r}")
    if refit:
        pf = case["prior_fit"]
        X0 = np.array(pf["X"], dtype=float).reshape(len(pf["X"]), d)
        y0 = clfreg.make_y(pf["y"], labels, cfg["missing_label"])
        ok, r = guarded(clf.fit, X0, y0)
        if not ok:
            # the earlier training set is only a means: not judged here
            lab.append(f"prior_fit_rejected:{type(r).__name__}")
            return done()
        lab.append("prior_fit_done")
    ok, r = guarded(_fit, clf, case, X, y, w)
    if not ok:
        if kind == "MixtureModelClassifier" and _raised_in_sklearn_mixture(r):
            # scikit-learn's own precondition (collapsed / too few samples
            # for the requested components), propagated unchanged
            lab.append("mixture_rejected_data")
            return done()
        viol.append(exc_violation(comp, r, trig, "fit"))
        return done()

    # --------------------------------------------------------- classes_ --
    try:
        classes_ = np.asarray(clf.classes_)
    except Exception as e:  # noqa
        viol.append(exc_violation(comp, e, trig, "classes_"))
        return done()
    if (classes_.shape != (K,)
            or [_py(v) for v in classes_.tolist()] != want_classes):
        viol.append(Violation(
            comp, "classes_not_sorted_class_list",
            f"declared={declared}",
            f"classes_={classes_.tolist()} expected {want_classes}"))
        return done()
    col = {v: i for i, v in enumerate(want_classes)}

    # ---------------------------------------------------- predict_proba --
    ok, P = guarded(clf.predict_proba, Xq)
    if not ok:
        viol.append(exc_violation(comp, P, trig, "predict_proba"))
        return done()
    P = np.asarray(P)
    fallback = _fallback(clf, cfg)
    lab.append(f"fallback={fallback}")
    nan_est = (not fallback) and _estimator_proba_nan(clf, cfg, Xq)
    if nan_est:
        lab.append("estimator_proba_nan")
    if P.shape != (nq, K) or P.dtype.kind not in "fiu":
        viol.append(Violation(comp, "proba_bad_shape", trig,
                              f"shape {P.shape} dtype {P.dtype}, expected "
                              f"({nq}, {K})"))
        return done()
    P = P.astype(float)
    far = bool(np.any(np.abs(Xq) > 50))
    ptrig = (trig if trig != "valid_input" else
             "no_labels" if no_labels else
             "far_query" if far else "valid_input")
    if not np.all(np.isfinite(P)):
        viol.append(Violation(comp, "proba_not_finite", ptrig,
                              f"P={P.tolist()}"))
        return done()
    if P.min() < -1e-12:
        viol.append(Violation(comp, "proba_negative", ptrig,
                              f"min {P.min()}"))
    want_sums = np.ones(nq)
    if not fallback and not nan_est:
        es = _estimator_row_sums(clf, cfg, Xq)
        if es is not None and np.max(np.abs(es - 1)) > 1e-9:
            if np.max(np.abs(es - 1)) <= 1e-6:
                # precision loss inside the wrapped estimator: the wrapper
                # has to preserve these sums
                lab.append("estimator_not_normalised")
                want_sums = es
            else:
                lab.append("estimator_invalid_proba")
                ptrig = ("zero_variance_labeled_rows"
                         if _zero_variance_rows(case, eff)
                         else "estimator_invalid_proba")
    if np.max(np.abs(P.sum(axis=1) - want_sums)) > 1e-8:
        viol.append(Violation(comp, "proba_rows_do_not_sum_to_one", ptrig,
                              f"row sums {P.sum(axis=1).tolist()} expected "
                              f"{want_sums.tolist()}"))
    if viol:
        return done()

    # ----------------------------------------------------- predict_freq --
    if clfreg.has_predict_freq(cfg):
        ok, F = guarded(clf.predict_freq, Xq)
        if not ok:
            viol.append(exc_violation(comp, F, trig, "predict_freq"))
        else:
            F = np.asarray(F, dtype=float)
            if F.shape != (nq, K):
                viol.append(Violation(comp, "freq_bad_shape", trig,
                                      f"shape {F.shape}"))
            elif not np.all(F >= 0):
                viol.append(Violation(comp, "freq_negative_or_nan", ptrig,
                                      f"F={F.tolist()}"))

    # ---------------------------------------------- uniform cold start --
    hard = (kind == "AnnotatorEnsembleClassifier"
            and cfg["params"]["voting"] == "hard")
    if no_labels and declared and not hard:
        prior = _prior_of(cfg)
        if isinstance(prior, list) and sum(prior) > 0:
            want = np.array(prior, dtype=float) / float(sum(prior))
            what = "prior/sum(prior)"
        else:
            want = np.full(K, 1.0 / K)
            what = "uniform"
        if not np.allclose(P, want[None, :], rtol=1e-9, atol=1e-9):
            viol.append(Violation(
                comp, "cold_start_not_" + what.split("/")[0],
                f"no_labels&rows={'0' if n == 0 else '>0'}",
                f"P={P.tolist()} expected every row {want.tolist()}"))

    # ------------------------------------------------ planted column order --
    planted_checked = False
    if case["mode"] == "planted" and case["planted_cls"] is not None:
        applies = True
        if (kind == "SklearnClassifier"
                and cfg["params"]["estimator"]["name"] == "SGDClassifier"):
            applies = False  # one-vs-rest SGD need not separate the clusters
        if kind == "SlidingWindowClassifier" and len(eff) != n:
            applies = False
        if fallback or nan_est:
            applies = False  # label distribution, independent of the query
        if applies and kind == "MixtureModelClassifier":
            y_idx = case["y"]
            ok, sep = guarded(_mixture_separates, clf, case["X"], y_idx,
                              case["Xq"], case["planted_cls"])
            applies = bool(ok and sep)
        if applies:
            planted_checked = True
            for i, c in enumerate(case["planted_cls"]):
                j = col[labels[c]]
                others = np.delete(P[i], j)
                if others.size and not P[i, j] > others.max() + 1e-9:
                    viol.append(Violation(
                        comp, "planted_class_mass_in_wrong_column",
                        (trig if trig != "valid_input" else
                         f"observed<declared={len(observed) < K}"),
                        f"query {i} is a training row of the cluster of class "
                        f"{labels[c]!r} (column {j} of classes_="
                        f"{want_classes}) but P[i]={P[i].tolist()}"))
                    break
    lab.append(f"planted_checked={planted_checked}")

    # ---------------------------------------------------------- predict --
    C = (1.0 - np.eye(K) if not has_cost else
         clfreg.sorted_cost_matrix(cfg["cost_matrix"], labels))
    costs = P @ C
    pclf = clf
    if kind == "AnnotatorEnsembleClassifier":
        pclf = clfreg.build(cfg)
        ok, r = guarded(_fit, pclf, case, X, y, w)
        if not ok:
            raise HarnessError(f"twin fit failed after first fit passed: {r!r}")
    ok, pred = guarded(pclf.predict, Xq)
    ctrig = ("cost_matrix&classes!=arange" if has_cost and not arange else
             "cost_matrix" if has_cost else "default_cost")
    if "cost_on_wrapper_only" in tags:
        ctrig = "cost_matrix_on_wrapper_only"
    if nan_est and not has_cost:
        # the wrapped estimator returned NaN probabilities: predict_proba
        # switches to the label distribution, predict (no cost matrix) still
        # asks the estimator
        ctrig = ("zero_variance_labeled_rows"
                 if _zero_variance_rows(case, eff) else "estimator_proba_nan")
    if trig != "valid_input":
        ctrig = trig
    cost_flips = False
    if not ok:
        viol.append(exc_violation(comp, pred, ctrig, "predict"))
    else:
        pred = np.asarray(pred)
        if pred.shape != (nq,):
            viol.append(Violation(comp, "predict_bad_shape", ctrig,
                                  f"shape {pred.shape}"))
        else:
            pl = [_py(v) for v in pred.tolist()]
            bad = [v for v in pl if v not in col]
            if bad:
                viol.append(Violation(
                    comp, "predict_not_in_classes", ctrig,
                    f"predict={pl} classes_={want_classes}"))
            elif fallback:
                zero = [i for i, v in enumerate(pl) if not P[i, col[v]] > 0]
                if zero:
                    viol.append(Violation(
                        comp, "fallback_predict_has_zero_probability", ctrig,
                        f"predict={pl} P={P.tolist()}"))
            else:
                for i, v in enumerate(pl):
                    if costs[i, col[v]] > costs[i].min() + 1e-9:
                        viol.append(Violation(
                            comp, "predict_not_cost_minimal", ctrig,
                            f"query {i}: predicted {v!r} with expected cost "
                            f"{costs[i, col[v]]} but row of expected costs "
                            f"is {costs[i].tolist()} (classes_="
                            f"{want_classes}, P={P[i].tolist()})"))
                        break
    if has_cost:
        am = P.argmax(axis=1)
        cost_flips = bool(np.any(
            costs[np.arange(nq), am] > costs.min(axis=1) + 1e-9))
    lab.append(f"cost_flips={cost_flips}")

    nontrivial = (declared and len(observed) < K) or cost_flips or no_labels
    return done(nontrivial)


def _py(v):
    """numpy scalar / python scalar -> comparable python value (floats that
    are whole numbers compare equal to ints anyway)."""
    if isinstance(v, (np.generic,)):
        v = v.item()
    if isinstance(v, float) and not math.isnan(v) and v == int(v):
        return int(v)
    return v
