"""C06 extras: reproducibility of stream query/update sequences and of
classifier fit/predict for a fixed random_state, independent of numpy's
process-global generator."""
import numpy as np
from hypothesis import strategies as st

from .. import poolreg, streamreg, gen
from ..common import (Outcome, Violation, exc_violation, guarded,
                      arr_equal_exact, arr_close, SAME, quiet, time_limit)

CLF_KEYS = ["pwc", "pwc_default", "gnb", "lr", "tree_clf", "mmc", "mmc_gm"]


# ------------------------------------------------------------- stream ----
@st.composite
def _stream_case(draw):
    kind, name, cfg, classes = draw(streamreg.component())
    d = draw(st.integers(1, 2))
    regime = draw(st.sampled_from(["lattice", "cont"]))
    sizes = draw(st.lists(st.integers(1, 4), min_size=2, max_size=10))
    cognitive = kind == "strategy" and streamreg.STRATEGIES[name].get(
        "cognitive")
    if cognitive:
        sizes = [1] * len(sizes)
    chunks = []
    for s in sizes:
        if kind == "manager":
            nan_ok = streamreg.MANAGERS[name]["nan_ok"]
            chunks.append(draw(streamreg.utilities(s, s, nan_ok=nan_ok,
                                                   high=True)))
        else:
            chunks.append(draw(streamreg.rows(regime, d, s, s)))
    train = None
    if kind == "strategy" and streamreg.STRATEGIES[name]["clf"]:
        train = list(draw(streamreg.training_set(regime, d, classes)))
    return dict(kind="stream", ckind=kind, name=name, config=cfg,
                classes=classes, chunks=chunks, train=train,
                shared_bm=draw(st.booleans()),
                g1=draw(st.integers(0, 10**6)),
                g2=10**6 + 1 + draw(st.integers(0, 10**6)))


def _run_stream_once(case, gseed, bm_obj=None):
    kind, name = case["ckind"], case["name"]
    np.random.seed(gseed)
    if bm_obj is not None:
        obj = streamreg.build_strategy(name, case["config"], bm_obj=bm_obj)
    else:
        obj = streamreg.build(kind, name, case["config"])
    clf = X = y = None
    if case["train"] is not None:
        X = np.array(case["train"][0], dtype=float)
        y = np.array(case["train"][1], dtype=float)
        clf = streamreg.build_clf({"type": "pwc"}, case["classes"])
        clf = clf.fit(X, y)
    outs = []
    for ch in case["chunks"]:
        chunk = np.array(ch, dtype=float)
        q, u = streamreg.call_query(kind, name, obj, chunk, clf=clf, X=X,
                                    y=y, fit_clf=False,
                                    return_utilities=(kind != "manager"))
        outs.append((np.asarray(q).tolist(),
                     None if u is None else np.asarray(u, dtype=float)))
        streamreg.call_update(kind, name, obj, chunk, q,
                              utilities=(chunk if kind == "manager" else u))
    return outs


def _run_stream(case):
    comp = streamreg.component_label(case["ckind"], case["name"],
                                     case["config"])
    labels = [f"component={comp}", "kind=stream"]
    res = []
    # the caller may construct ONE budget manager object and hand it to both
    # (equally parameterised) strategy objects
    shared = None
    if (case["ckind"] == "strategy" and case["config"].get("bm")
            and case.get("shared_bm")):
        bm = case["config"]["bm"]
        shared = streamreg.build_manager(bm["name"], bm["config"])
        labels.append("shared_budget_manager_object")
    for g in (case["g1"], case["g2"]):
        try:
            with quiet(), time_limit():
                res.append(_run_stream_once(case, g, bm_obj=shared))
        except Exception as e:  # C10's business (update totality)
            res.append(e)
    a, b = res
    if isinstance(a, Exception) or isinstance(b, Exception):
        if type(a) is type(b):
            return Outcome([], False, labels + ["sequence_raised"])
        return Outcome([Violation(
            comp, "exception_depends_on_global_state", "stream",
            f"{a!r:.100} vs {b!r:.100}")], True, labels)
    viol = []
    granted = denied = 0
    for i, ((q1, u1), (q2, u2)) in enumerate(zip(a, b)):
        granted += len(q1)
        denied += len(case["chunks"][i]) - len(q1)
        if q1 != q2:
            viol.append(Violation(comp, "twin_objects_differ",
                                  "stream&queried_indices"
                                  + ("&shared_bm_object" if shared is not None
                                     else ""),
                                  f"step {i}: {q1} vs {q2}"))
            break
        if u1 is not None and not arr_close(u1, u2, **SAME):
            viol.append(Violation(comp, "twin_objects_differ",
                                  "stream&utilities", f"step {i}"))
            break
    spec = (streamreg.MANAGERS if case["ckind"] == "manager"
            else streamreg.STRATEGIES)[case["name"]]
    uses_rng = bool(spec.get("rng")) or case["ckind"] == "strategy"
    nontrivial = uses_rng and granted >= 1 and denied >= 1
    return Outcome(viol, nontrivial, labels)


# -------------------------------------------------------- classifiers ----
@st.composite
def _clf_case(draw):
    key = draw(st.sampled_from(CLF_KEYS))
    K = draw(st.sampled_from([2, 3]))
    n = draw(st.integers(3 if key.startswith("mmc") else 1, 10))
    d = draw(st.integers(1, 2))
    X, regime = draw(gen.feature_matrix(max(n, 2), d))
    yid, _ = draw(gen.label_pattern(len(X), K, "clf",
                                    max_labeled=len(X)))
    nq = draw(st.integers(1, 6))
    Xq = [[float(draw(st.integers(-2, 2))) for _ in range(d)]
          for _ in range(nq)] + [list(r) for r in X[:2]]
    return dict(kind="clf", clf=key, K=K, X=X, yid=yid, Xq=Xq,
                seed=draw(st.integers(0, 2**31 - 1)),
                rs_kind=draw(st.sampled_from(["int", "RandomState"])),
                g1=draw(st.integers(0, 10**6)),
                g2=10**6 + 1 + draw(st.integers(0, 10**6)))


def _clf_once(case, gseed):
    y, classes, missing = poolreg.encode_labels(case["yid"], "float_nan",
                                                case["K"])
    rs = (case["seed"] if case["rs_kind"] == "int"
          else np.random.RandomState(case["seed"]))
    clf = poolreg.make_clf(case["clf"], classes, missing, {}, random_state=rs)
    np.random.seed(gseed)
    X = np.array(case["X"], dtype=float)
    Xq = np.array(case["Xq"], dtype=float)
    clf.fit(X, y)
    P = clf.predict_proba(Xq)
    yp = clf.predict(Xq)
    yp2 = clf.predict(Xq)
    return np.asarray(P, dtype=float), np.asarray(yp), np.asarray(yp2)


def _run_clf(case):
    comp = f"clf[{case['clf']}]"
    nlab = sum(1 for v in case["yid"] if v is not None)
    labels = [f"component={comp}", "kind=clf", f"rs={case['rs_kind']}",
              f"nlab={'0' if nlab == 0 else '1+'}"]
    res = []
    for g in (case["g1"], case["g2"]):
        ok, r = guarded(_clf_once, case, g)
        res.append((ok, r))
    (ok1, r1), (ok2, r2) = res
    if not (ok1 and ok2):
        if ok1 == ok2:
            return Outcome([], False, labels + ["fit_raised"])
        return Outcome([Violation(comp, "exception_depends_on_global_state",
                                  "clf", f"{r1!r:.80} vs {r2!r:.80}")],
                       True, labels)
    viol = []
    P1, y1, _ = r1
    P2, y2, _ = r2
    if not arr_close(P1, P2, **SAME):
        viol.append(Violation(comp, "twin_objects_differ",
                              "clf&predict_proba", ""))
    elif not arr_equal_exact(y1, y2):
        viol.append(Violation(comp, "twin_objects_differ", "clf&predict",
                              f"{y1.tolist()} vs {y2.tolist()}"))
    top = np.sort(P1, axis=1)
    tie = P1.shape[1] >= 2 and bool(np.any(top[:, -1] - top[:, -2] < 1e-12))
    labels.append(f"tie={tie}")
    nontrivial = tie or case["clf"].startswith("mmc") or nlab == 0
    return Outcome(viol, nontrivial, labels)


def strategies(tier):
    from . import ma_extra
    return [ma_extra.repro_strategy(), _stream_case(), _clf_case()]


def run_case(case):
    if case["kind"] == "ma_repro":
        from . import ma_extra
        return ma_extra.run_case(case)
    if case["kind"] == "stream":
        return _run_stream(case)
    return _run_clf(case)
