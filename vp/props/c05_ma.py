"""C05, multi-annotator part: SingleAnnotatorWrapper and
IntervalEstimationThreshold queries have no side effects."""
import pickle

import numpy as np
from hypothesis import strategies as st

from ..common import (Outcome, Violation, guarded, array_fingerprint,
                      snapshot, snapshot_diff)
from . import c07, ma_util


@st.composite
def _case(draw):
    case = draw(c07._case(force_klass="regular"))
    case["kind"] = "ma"
    case["rounds"] = draw(st.sampled_from([1, 1, 2]))
    return case


def strategies(tier):
    return [_case()]


def run_case(case, params_snapshot):
    comp = ("SingleAnnotatorWrapper" if case["component"] == "SAW"
            else "IntervalEstimationThreshold")
    cfg = case["inner"] or case["clf"]
    labels = [f"component={comp}[{cfg}]", "kind=multi_annotator",
              f"rounds={case['rounds']}"]
    classes = list(range(case["n_classes"]))
    X, y, cand_arg, annot_arg, AV, sel_rows = ma_util.args_of(case)
    if int(AV.sum()) == 0 or any(not AV[r].any() for r in sel_rows):
        return Outcome([], False, labels + ["not_regular"])
    qs, kw = c07._build(case, classes)
    models = {k: v for k, v in kw.items() if k in ("clf", "ensemble")}

    def snap_models():
        out = {}
        for k, m in models.items():
            members = m if isinstance(m, (list, tuple)) else [m]
            out[k] = [(params_snapshot(x), snapshot(vars(x), rng_by_id=True))
                      for x in members]
        return out

    before_models = snap_models()
    before_params = params_snapshot(qs)
    try:
        pickle.dumps(qs)
        picklable = True
    except Exception:
        picklable = False
    viol = []
    for rnd in range(case["rounds"]):
        args = {"X": X.copy(), "y": y.copy(), "candidates": cand_arg,
                "annotators": annot_arg}
        for k in ("A_perf", "n_annotators_per_sample"):
            if isinstance(kw.get(k), np.ndarray):
                args[k] = kw[k]
        fp = {k: array_fingerprint(v) for k, v in args.items()}
        ok, r = guarded(qs.query, args["X"], args["y"],
                        candidates=cand_arg, annotators=annot_arg,
                        batch_size=case["batch_size"],
                        return_utilities=bool(case["return_utilities"]),
                        **kw)
        for k, v in args.items():
            if array_fingerprint(v) != fp[k]:
                viol.append(Violation(comp, "input_array_modified", k,
                                      f"round {rnd}: argument {k} changed"))
        if not ok:
            labels.append("query_raised")  # C07's business
            break
        after_models = snap_models()
        for k in models:
            for j, (b, a) in enumerate(zip(before_models[k],
                                           after_models[k])):
                if b[0] != a[0]:
                    viol.append(Violation(comp, "model_params_changed", k,
                                          f"round {rnd} member {j}"))
                elif b[1] != a[1]:
                    viol.append(Violation(
                        comp, "model_state_changed", k,
                        f"round {rnd} member {j}: "
                        f"{snapshot_diff(b[1], a[1])}"))
        after_params = params_snapshot(qs)
        if after_params != before_params:
            names = sorted(k for k in set(before_params) | set(after_params)
                           if before_params.get(k, "<absent>")
                           != after_params.get(k, "<absent>"))
            viol.append(Violation(comp, "strategy_params_changed",
                                  f"params={','.join(names)}",
                                  f"round {rnd}"))
        if picklable:
            try:
                pickle.dumps(qs)
            except Exception as e:
                viol.append(Violation(comp, "not_picklable_after_query",
                                      "any", repr(e)[:200]))
        if viol:
            break
    return Outcome(viol, True, labels)
