"""C16 - label predicates (is_labeled / is_unlabeled / labeled_indices /
unlabeled_indices) and ExtLabelEncoder round trip.

A case is a flat list of Python label values (numbers, strings, None, NaN)
plus a shape, a container (list / ndarray), a dtype family and a sentinel.
The oracle never touches numpy comparisons: it decides "missing" element by
element in plain Python (``x is None`` / ``isnan(x)`` / ``x == sentinel``) and
derives the expected masks, index lists, sorted class list, ranks and the
round trip from that.
"""
import math

import numpy as np
from hypothesis import strategies as st

from ..common import Outcome, Violation, exc_violation, guarded

PROPERTY_ID = "C16"
TECHNIQUE = ("Hypothesis-generated label arrays (dtype family x sentinel x "
             "shape x container x presence pattern x explicit/implicit "
             "classes) against a pure-Python elementwise reference; "
             "incompatible (dtype, sentinel) pairs as a separate class that "
             "must be rejected with TypeError")
RULE = (
    "Cases: label family in {float, int, '<U' str, object(str/None), "
    "object(number/None)} x container {ndarray, nested list} x shape (n,) or "
    "(n,m) with n in 0..12, m in 1..3 x sentinel {NaN, None, int, float, "
    "str incl. '', numpy scalar variants} x presence {absent, some, all} x "
    "classes {implicit, explicit shuffled superset}. Only (family, sentinel) "
    "pairs accepted by check_missing_label are 'supported'; the others form "
    "the class 'incompatible' (TypeError expected). Distinct = distinct case "
    "hash; non-trivial = supported case whose array has at least one labeled "
    "and one missing entry and (family, sentinel) != (float, NaN).")
RULE += (" Further generated dimensions (added while closing seeded "
         "changes): " + 'infinite float labels; the encoder also fitted on the labeled part only before transform / inverse_transform of the full array; encoder object re-used after set_params' + ".")
ASSUMPTIONS = [
    "labels are finite numbers (NaN only as the sentinel), short strings "
    "without NUL characters, or None (object arrays only)",
    "integer labels are small (|x| <= 1000) so that int->float casts are exact",
    "with explicit classes every labeled entry is one of the classes and the "
    "sentinel is not a class (both are documented ValueErrors otherwise)",
    "empty Python lists are generated only with numeric/None sentinels (an "
    "empty list carries no dtype); typed empty ndarrays for every family",
    "arrays of shape (n, 0) are excluded (documented ValueError)",
    "numeric ndarray + string sentinel: the encoder must raise TypeError; the "
    "predicates may either raise TypeError or report 'all labeled' (the "
    "docstrings promise neither; list inputs of the same content raise)",
    "dtype of inverse_transform output is not asserted (int labels with a "
    "NaN sentinel come back as float); values are compared elementwise",
]
PROFILE = {
    "quick": dict(examples=6000, shards=16, budget_s=90),
    "thorough": dict(examples=120000, shards=16, budget_s=900),
}

FLOAT_POOL = [0.0, 1.0, 2.0, 3.0, -1.0, 2.5, 10.0, 20.0, 30.0, 99.0, 0.5,
              float("inf"), float("-inf")]
INT_POOL = [0, 1, 2, 3, -1, 10, 20, 30, 99, -2]
STR_POOL = ["a", "b", "c", "ab", "zz", "z", "", "A", "None", "nan", "0",
            "-1", "a ", "zzz", "ü"]
NUMOBJ_POOL = [0, 1, 2, 3, -1, 2.5, 10, 0.5]


# ----------------------------------------------------------- sentinels ----
def ml_value(ml):
    """JSON description -> live sentinel."""
    t, v = ml["t"], ml.get("v")
    if t == "nan":
        return np.float64("nan") if ml.get("np") else float("nan")
    if t == "none":
        return None
    if t == "int":
        return np.int64(v) if ml.get("np") else int(v)
    if t == "float":
        return np.float64(v) if ml.get("np") else float(v)
    if t == "str":
        return np.str_(v) if ml.get("np") else str(v)
    if t == "bool":
        return bool(v)
    if t == "list":
        return list(v)
    raise ValueError(t)


def ml_tag(ml):
    t = ml["t"]
    if t == "str" and ml["v"] == "":
        return "empty_str"
    return t


def is_missing(x, ml):
    """Pure-Python reference predicate."""
    t = ml["t"]
    if t == "none":
        return x is None
    if x is None:
        return False
    if t == "nan":
        return isinstance(x, float) and math.isnan(x)
    if t in ("int", "float"):
        if isinstance(x, str):
            return False
        return x == ml["v"]
    if t == "str":
        return isinstance(x, str) and x == ml["v"]
    return False


def same(x, y):
    if x is None or y is None:
        return x is None and y is None
    if isinstance(x, float) and math.isnan(x):
        return isinstance(y, float) and math.isnan(y)
    if isinstance(x, str) != isinstance(y, str):
        return False
    return bool(x == y)


def eq(x, y):
    """Equality of two *labels* (never None/NaN): same family and ==."""
    if x is None or y is None:
        return False
    if isinstance(x, str) != isinstance(y, str):
        return False
    return bool(x == y)


# ------------------------------------------------------------ strategy ----
def _label_strategy(kind):
    if kind == "float":
        return _weighted(
            (3, st.sampled_from(FLOAT_POOL)),
            (1, st.floats(min_value=-1e6, max_value=1e6, allow_nan=False,
                          width=64).map(lambda v: v + 0.0)))
    if kind == "int":
        return _weighted((3, st.sampled_from(INT_POOL)),
                         (1, st.integers(-1000, 1000)))
    if kind in ("str", "obj_str"):
        return _weighted((3, st.sampled_from(STR_POOL)),
                         (1, st.text(alphabet="abz", max_size=3)))
    return st.sampled_from(NUMOBJ_POOL)


def _ml(t, values):
    return st.builds(lambda v, np_: {"t": t, "v": v, "np": np_},
                     st.sampled_from(values), st.booleans())


def _weighted(*pairs):
    """one_of with integer weights (one_of drops repeated strategies)."""
    idx = [i for i, (w, _) in enumerate(pairs) for _ in range(w)]
    strats = [p[1] for p in pairs]
    return st.sampled_from(idx).flatmap(lambda i: strats[i])


def _sentinel_strategy(kind):
    """Sentinels accepted by check_missing_label for the family."""
    none = st.just({"t": "none"})
    if kind == "float":
        nan = st.sampled_from([{"t": "nan"}, {"t": "nan"},
                               {"t": "nan", "np": True}])
        return _weighted((3, nan), (3, _ml("float", [-1.0, 99.0, 2.5, 0.0,
                                                      1.0])),
                         (3, _ml("int", [-1, 0, 99, 2])), (1, none))
    if kind == "int":
        return _weighted((10, _ml("int", [-1, 99, 0, 2, -2])),
                         (4, _ml("float", [2.0, -1.0, 0.5, 99.0])),
                         (4, st.just({"t": "nan"})), (1, none))
    if kind == "str":
        return _weighted((12, _ml("str", ["zz", "", "a", "None", "missing",
                                          "z", "nan", "-1"])), (1, none))
    return none


def _placeable(kind, container, ml):
    """Value to store for a missing entry, or (False, None) when the sentinel
    cannot occur inside such an array."""
    t = ml["t"]
    if t == "none":
        return (kind in ("obj_str", "obj_num")), None
    if kind == "float":
        if t == "nan":
            return True, float("nan")
        return True, float(ml["v"])
    if kind == "int":
        if t == "int":
            return True, int(ml["v"])
        if container == "list":
            # a list mixing ints with a float sentinel (becomes a float array)
            return True, (float("nan") if t == "nan" else float(ml["v"]))
        if t == "float" and float(ml["v"]).is_integer():
            return True, int(ml["v"])
        return False, None
    if kind == "str":
        return (t == "str"), (ml["v"] if t == "str" else None)
    return False, None


@st.composite
def _shape(draw, allow_empty=True):
    n = draw(_weighted((1, st.sampled_from([0, 1, 2, 3, 4, 5] if allow_empty
                                           else [1, 2, 3])),
                       (2, st.integers(1, 12))))
    if draw(st.booleans()):
        return [n]
    return [n, draw(st.integers(1, 3))]


@st.composite
def _classes(draw, kind, labeled_vals, ml):
    """Explicit class list: superset of the observed labels, shuffled."""
    if not draw(st.booleans()):
        return None, "list"
    cls = []
    for v in labeled_vals:
        if not any(eq(v, c) for c in cls):
            cls.append(v)
    extra = draw(st.lists(_label_strategy(kind), min_size=0, max_size=3))
    for v in extra:
        if is_missing(v, ml):
            continue
        if any(eq(v, c) for c in cls):
            continue
        cls.append(v)
    if not cls:
        return None, "list"
    cls = draw(st.permutations(cls))
    if kind == "float" and draw(st.booleans()) and all(
            float(c).is_integer() for c in cls):
        cls = [int(c) for c in cls]  # classes=[0,1,2] with float y
    return list(cls), draw(st.sampled_from(["list", "ndarray"]))


@st.composite
def _supported(draw):
    kind = draw(st.sampled_from(["float", "float", "int", "int", "int",
                                 "str", "str", "str", "obj_str", "obj_str",
                                 "obj_num"]))
    container = draw(st.sampled_from(["ndarray", "list"]))
    ml = draw(_sentinel_strategy(kind))
    shape = draw(_shape())
    if container == "list" and shape[0] == 0:
        shape = [0]
        if ml["t"] == "str":
            container = "ndarray"  # an empty list carries no dtype
    size = int(np.prod(shape))
    lab = _label_strategy(kind).filter(lambda v: not is_missing(v, ml))
    vals = draw(st.lists(lab, min_size=size, max_size=size))
    can, stored = _placeable(kind, container, ml)
    presence = "absent"
    if can and size > 0:
        presence = draw(st.sampled_from(["absent", "some", "some", "some",
                                         "some", "some", "some", "all"]))
        if presence == "all":
            vals = [stored] * size
        elif presence == "some":
            mask = draw(st.lists(st.booleans(), min_size=size, max_size=size))
            mask[draw(st.integers(0, size - 1))] = True
            if size > 1:
                mask[draw(st.integers(0, size - 1))] = False
            vals = [stored if m else v for v, m in zip(vals, mask)]
    labeled_vals = [v for v in vals if not is_missing(v, ml)]
    classes, ccont = draw(_classes(kind, labeled_vals, ml))
    return dict(mode="supported", kind=kind, container=container,
                shape=shape, values=vals, ml=ml, classes=classes,
                classes_container=ccont,
                refit=draw(st.integers(0, 3)) == 0)


NUM_ML = st.one_of(
    st.just({"t": "nan"}),
    st.builds(lambda v, np_: {"t": "int", "v": v, "np": np_},
              st.sampled_from([-1, 0, 99]), st.booleans()),
    st.builds(lambda v, np_: {"t": "float", "v": v, "np": np_},
              st.sampled_from([-1.0, 2.5]), st.booleans()))
STR_ML = st.builds(lambda v, np_: {"t": "str", "v": v, "np": np_},
                   st.sampled_from(["zz", "", "a", "missing"]), st.booleans())
BAD_ML = st.sampled_from([{"t": "bool", "v": True}, {"t": "bool", "v": False},
                          {"t": "list", "v": [1]}, {"t": "list", "v": []}])


@st.composite
def _incompatible(draw):
    sub = draw(st.sampled_from(["str_vs_num", "obj_vs_not_none",
                                "numlist_vs_str", "numarr_vs_str",
                                "bad_sentinel_type"]))
    shape = draw(_shape(allow_empty=False))
    size = int(np.prod(shape))
    if sub == "str_vs_num":
        kind, container = "str", draw(st.sampled_from(["ndarray", "list"]))
        ml = draw(NUM_ML)
    elif sub == "obj_vs_not_none":
        kind = draw(st.sampled_from(["obj_str", "obj_num"]))
        container = draw(st.sampled_from(["ndarray", "list"]))
        ml = draw(st.one_of(NUM_ML, STR_ML))
    elif sub == "numlist_vs_str":
        kind, container = draw(st.sampled_from(["float", "int"])), "list"
        ml = draw(STR_ML)
    elif sub == "numarr_vs_str":
        kind, container = draw(st.sampled_from(["float", "int"])), "ndarray"
        ml = draw(STR_ML)
    else:
        kind = draw(st.sampled_from(["float", "int", "str", "obj_str"]))
        container = draw(st.sampled_from(["ndarray", "list"]))
        ml = draw(BAD_ML)
    vals = draw(st.lists(_label_strategy(kind), min_size=size, max_size=size))
    if kind in ("obj_str", "obj_num"):
        # a list becomes an object array only if it contains a None
        mask = draw(st.lists(st.booleans(), min_size=size, max_size=size))
        if container == "list" and not any(mask):
            mask[draw(st.integers(0, size - 1))] = True
        vals = [None if m else v for v, m in zip(vals, mask)]
    classes = None
    if draw(st.integers(0, 3)) == 0:
        cls = []
        for v in vals:
            if v is None or is_missing(v, ml):
                continue
            if not any(eq(v, c) for c in cls):
                cls.append(v)
        classes = cls or None
    return dict(mode="incompatible", sub=sub, kind=kind, container=container,
                shape=shape, values=vals, ml=ml, classes=classes,
                classes_container="list")


def case_strategy(tier, shard=0, nshards=1):
    return _weighted((6, _supported()), (1, _incompatible()))


# ------------------------------------------------------------ builders ----
def _nest(vals, shape):
    if len(shape) == 1:
        return list(vals)
    m = shape[1]
    return [list(vals[i * m:(i + 1) * m]) for i in range(shape[0])]


def build_y(case):
    vals, shape, kind = case["values"], tuple(case["shape"]), case["kind"]
    if case["container"] == "list":
        return _nest(vals, shape)
    if kind == "float":
        return np.array(vals, dtype=float).reshape(shape)
    if kind == "int":
        return np.array(vals, dtype=int).reshape(shape)
    if kind == "str":
        if not vals:
            return np.empty(shape, dtype="<U1")
        return np.array(vals, dtype=str).reshape(shape)
    a = np.empty(len(vals), dtype=object)
    for i, v in enumerate(vals):
        a[i] = v
    return a.reshape(shape)


def build_classes(case):
    cls = case["classes"]
    if cls is None:
        return None
    if case.get("classes_container") == "ndarray":
        return np.array(cls)
    return list(cls)


def _flat(a):
    return np.asarray(a).ravel().tolist()


# --------------------------------------------------------------- oracle ----
def _check_mask(comp, name, got, want_flat, shape, trig, viol):
    if not isinstance(got, np.ndarray) or got.dtype != bool:
        viol.append(Violation(comp, f"{name}:not_a_bool_ndarray", trig,
                              f"got {type(got).__name__} "
                              f"{getattr(got, 'dtype', None)}"))
        return False
    if got.shape != shape:
        viol.append(Violation(comp, f"{name}:bad_shape", trig,
                              f"shape {got.shape} want {shape}"))
        return False
    if got.ravel().tolist() != want_flat:
        viol.append(Violation(comp, f"{name}:mask_mismatch", trig,
                              f"got {got.ravel().tolist()} want {want_flat}"))
        return False
    return True


def _check_indices(comp, name, got, want_mask_flat, shape, trig, viol):
    if len(shape) == 1:
        want = [i for i, m in enumerate(want_mask_flat) if m]
        want_shape = (len(want),)
    else:
        m_ = shape[1]
        want = [[i // m_, i % m_] for i, m in enumerate(want_mask_flat) if m]
        want_shape = (len(want), 2)
    if (not isinstance(got, np.ndarray) or got.dtype.kind not in "iu"
            or got.shape != want_shape):
        viol.append(Violation(comp, f"{name}:bad_shape", trig,
                              f"got {getattr(got, 'shape', None)} "
                              f"{getattr(got, 'dtype', None)} want "
                              f"{want_shape}"))
        return
    if got.tolist() != want:
        viol.append(Violation(comp, f"{name}:index_mismatch", trig,
                              f"got {got.tolist()} want {want}"))


def _trigger(case):
    return (f"{case['kind']}/{ml_tag(case['ml'])}/{case['container']}"
            f"/{len(case['shape'])}d")


def _run_supported(case):
    from skactiveml.utils import (ExtLabelEncoder, is_labeled, is_unlabeled,
                                  labeled_indices, unlabeled_indices)
    vals, shape, ml = case["values"], tuple(case["shape"]), case["ml"]
    size = len(vals)
    ref = [bool(is_missing(v, ml)) for v in vals]
    nref = [not r for r in ref]
    n_missing = sum(ref)
    trig = _trigger(case)
    presence = ("empty" if size == 0 else "absent" if n_missing == 0 else
                "all" if n_missing == size else "some")
    labels = ["component=label_predicates", "component=ExtLabelEncoder",
              "mode=supported", f"kind={case['kind']}",
              f"sentinel={ml_tag(ml)}", f"np_scalar_sentinel="
              f"{bool(ml.get('np'))}", f"container={case['container']}",
              f"ndim={len(shape)}", f"presence={presence}",
              f"classes={'explicit' if case['classes'] is not None else 'implicit'}"]
    viol = []
    comp = "label_predicates"

    # ---- predicates
    ok, r = guarded(is_unlabeled, build_y(case), missing_label=ml_value(ml))
    if not ok:
        viol.append(exc_violation(comp, r, trig, "is_unlabeled"))
    else:
        _check_mask(comp, "is_unlabeled", r, ref, shape, trig, viol)
    ok, r = guarded(is_labeled, build_y(case), missing_label=ml_value(ml))
    if not ok:
        viol.append(exc_violation(comp, r, trig, "is_labeled"))
    else:
        _check_mask(comp, "is_labeled", r, nref, shape, trig, viol)
    ok, r = guarded(unlabeled_indices, build_y(case),
                    missing_label=ml_value(ml))
    if not ok:
        viol.append(exc_violation(comp, r, trig, "unlabeled_indices"))
    else:
        _check_indices(comp, "unlabeled_indices", r, ref, shape, trig, viol)
    ok, r = guarded(labeled_indices, build_y(case),
                    missing_label=ml_value(ml))
    if not ok:
        viol.append(exc_violation(comp, r, trig, "labeled_indices"))
    else:
        _check_indices(comp, "labeled_indices", r, nref, shape, trig, viol)

    # ---- encoder
    comp = "ExtLabelEncoder"
    etrig = trig + ("/explicit" if case["classes"] is not None
                    else "/implicit")
    if case["classes"] is not None:
        src = list(case["classes"])
    else:
        src = [v for v, m in zip(vals, ref) if not m]
    uniq = []
    for v in src:
        if not any(eq(v, c) for c in uniq):
            uniq.append(v)
    want_classes = sorted(uniq)

    def rank(v):
        for i, c in enumerate(want_classes):
            if eq(v, c):
                return i
        raise AssertionError("generator: label outside classes")

    want_enc = [-1 if m else rank(v) for v, m in zip(vals, ref)]
    labels.append(f"n_classes={min(len(want_classes), 4)}"
                  f"{'+' if len(want_classes) > 4 else ''}")

    def enc_roundtrip():
        if case.get("refit"):
            # the encoder object was used before with other parameters
            # (an explicit numeric class list and the NaN sentinel); fit
            # must rebuild everything from the current parameters
            le = ExtLabelEncoder(classes=[20, 5, 10, 2])
            le.fit(np.array([5.0, np.nan, 20.0]))
            le.set_params(classes=build_classes(case),
                          missing_label=ml_value(ml))
        else:
            le = ExtLabelEncoder(classes=build_classes(case),
                                 missing_label=ml_value(ml))
        le.fit(build_y(case))
        t = le.transform(build_y(case))
        inv = le.inverse_transform(t)
        le2 = ExtLabelEncoder(classes=build_classes(case),
                              missing_label=ml_value(ml))
        ft = le2.fit_transform(build_y(case))
        k = len(le.classes_)
        t_cls = le.transform(le.classes_) if k else None
        inv_cls = le.inverse_transform(np.arange(k)) if k else None
        return le.classes_, t, inv, ft, t_cls, inv_cls

    ok, r = guarded(enc_roundtrip)
    if not ok:
        viol.append(exc_violation(comp, r, etrig, "fit/transform/inverse"))
    else:
        classes_, t, inv, ft, t_cls, inv_cls = r
        got_cls = _flat(classes_)
        if (np.asarray(classes_).ndim != 1
                or len(got_cls) != len(want_classes)
                or not all(eq(a, b) for a, b in zip(got_cls, want_classes))):
            viol.append(Violation(comp, "classes_not_sorted_unique", etrig,
                                  f"classes_={got_cls} want {want_classes}"))
        for name, arr in (("transform", t), ("fit_transform", ft)):
            if (not isinstance(arr, np.ndarray) or arr.shape != shape
                    or arr.dtype.kind not in "iu"):
                viol.append(Violation(
                    comp, f"{name}:bad_shape_or_dtype", etrig,
                    f"{getattr(arr, 'shape', None)} "
                    f"{getattr(arr, 'dtype', None)} want {shape} int"))
            elif arr.ravel().tolist() != want_enc:
                viol.append(Violation(
                    comp, f"{name}:wrong_code", etrig,
                    f"got {arr.ravel().tolist()} want {want_enc}"))
        if not isinstance(inv, np.ndarray) or inv.shape != shape:
            viol.append(Violation(comp, "inverse_transform:bad_shape", etrig,
                                  f"{getattr(inv, 'shape', None)} want "
                                  f"{shape}"))
        else:
            got = inv.ravel().tolist()
            bad = [i for i, (a, b) in enumerate(zip(got, vals))
                   if not (same(a, b) or eq(a, b))]
            if bad:
                viol.append(Violation(
                    comp, "round_trip_mismatch", etrig,
                    f"positions {bad[:5]}: got {got} want {vals}"))
        if t_cls is not None:
            if np.asarray(t_cls).tolist() != list(range(len(got_cls))):
                viol.append(Violation(comp, "classes_not_mapped_to_0..K-1",
                                      etrig, f"transform(classes_)="
                                      f"{np.asarray(t_cls).tolist()}"))
            ic = _flat(inv_cls)
            if len(ic) != len(got_cls) or not all(
                    eq(a, b) for a, b in zip(ic, got_cls)):
                viol.append(Violation(comp, "codes_not_mapped_to_classes",
                                      etrig, f"inverse(arange(K))={ic} "
                                      f"classes_={got_cls}"))
    # ---- encoder fitted on OTHER data (the labeled part only), then used
    # for y: classes and codes are the same, so the round trip must hold too
    if 0 < n_missing < size and not viol:
        lab_case = dict(case, values=[v for v, m in zip(vals, ref) if not m],
                        shape=[size - n_missing])

        def enc_other():
            le = ExtLabelEncoder(classes=build_classes(case),
                                 missing_label=ml_value(ml))
            le.fit(build_y(lab_case))
            t = le.transform(build_y(case))
            return t, le.inverse_transform(t)

        ok, r = guarded(enc_other)
        otrig = etrig + "/fit_on_labeled_part"
        if not ok:
            viol.append(exc_violation(comp, r, otrig,
                                      "fit(labeled part)/transform/inverse"))
        else:
            t, inv = r
            labels.append("encoder_fitted_on_labeled_part")
            if (not isinstance(t, np.ndarray) or t.shape != shape
                    or t.ravel().tolist() != want_enc):
                viol.append(Violation(
                    comp, "transform:wrong_code", otrig,
                    f"got {np.asarray(t).ravel().tolist()} want {want_enc}"))
            elif not isinstance(inv, np.ndarray) or inv.shape != shape:
                viol.append(Violation(
                    comp, "inverse_transform:bad_shape", otrig,
                    f"{getattr(inv, 'shape', None)} want {shape}"))
            else:
                got = inv.ravel().tolist()
                bad = [i for i, (a, b) in enumerate(zip(got, vals))
                       if not (same(a, b) or eq(a, b))]
                if bad:
                    viol.append(Violation(
                        comp, "round_trip_mismatch", otrig,
                        f"positions {bad[:5]}: got {got} want {vals}"))
    nontrivial = (0 < n_missing < size
                  and not (case["kind"] == "float" and ml["t"] == "nan"))
    if nontrivial:
        labels.append(f"nontrivial_pair={case['kind']}/{ml_tag(ml)}")
    return Outcome(viol, nontrivial, labels)


def _run_incompatible(case):
    from skactiveml.utils import (ExtLabelEncoder, is_labeled, is_unlabeled,
                                  labeled_indices, unlabeled_indices)
    sub, ml, shape = case["sub"], case["ml"], tuple(case["shape"])
    labels = ["component=label_predicates", "component=ExtLabelEncoder",
              "mode=incompatible", f"incompatible={sub}",
              f"kind={case['kind']}", f"sentinel={ml_tag(ml)}",
              f"container={case['container']}", f"ndim={len(shape)}"]
    viol = []
    lenient = sub == "numarr_vs_str"
    size = len(case["values"])
    for name, fn in (("is_unlabeled", is_unlabeled),
                     ("is_labeled", is_labeled),
                     ("unlabeled_indices", unlabeled_indices),
                     ("labeled_indices", labeled_indices)):
        ok, r = guarded(fn, build_y(case), missing_label=ml_value(ml))
        if not ok and isinstance(r, TypeError):
            labels.append(f"{name}=TypeError") if lenient else None
            continue
        if ok and lenient:
            # nothing equals the sentinel: everything is labeled
            labels.append(f"{name}=all_labeled")
            if name == "is_unlabeled":
                _check_mask("label_predicates", name, r, [False] * size,
                            shape, f"incompatible:{sub}", viol)
            elif name == "is_labeled":
                _check_mask("label_predicates", name, r, [True] * size,
                            shape, f"incompatible:{sub}", viol)
            elif name == "unlabeled_indices":
                _check_indices("label_predicates", name, r, [False] * size,
                               shape, f"incompatible:{sub}", viol)
            else:
                _check_indices("label_predicates", name, r, [True] * size,
                               shape, f"incompatible:{sub}", viol)
            continue
        if ok:
            viol.append(Violation("label_predicates",
                                  f"{name}:no_TypeError", f"incompatible:{sub}",
                                  f"returned {np.asarray(r).tolist()}"))
        else:
            viol.append(exc_violation("label_predicates", r,
                                      f"incompatible:{sub}", name))

    def enc():
        return ExtLabelEncoder(classes=build_classes(case),
                               missing_label=ml_value(ml)).fit(build_y(case))
    ok, r = guarded(enc)
    if ok:
        viol.append(Violation("ExtLabelEncoder", "fit:no_TypeError",
                              f"incompatible:{sub}", "fit succeeded"))
    elif not isinstance(r, TypeError):
        viol.append(exc_violation("ExtLabelEncoder", r,
                                  f"incompatible:{sub}", "fit"))
    return Outcome(viol, False, labels)


def run_case(case):
    if case["mode"] == "supported":
        return _run_supported(case)
    return _run_incompatible(case)


def extra_engines(tier, seed):
    """Thorough tier: the same generator/oracle driven by atheris
    (coverage-guided) - see vp/fuzz_atheris.py."""
    from .. import fuzz_atheris
    return fuzz_atheris.extra(PROPERTY_ID, tier, seed, runs=120000,
                              timeout=900)
