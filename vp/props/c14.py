"""C14 - a pool active-learning loop labels every sample exactly once."""
import math

import numpy as np
from hypothesis import strategies as st

from .. import gen, poolreg, poolrun
from ..common import Outcome, Violation, exc_violation, guarded
from . import c01

PROPERTY_ID = "C14"
TECHNIQUE = ("Hypothesis-generated active-learning histories (initial "
             "labeling, batch size, oracle labels, seed) driven through the "
             "standard query/reveal loop on ONE strategy object, with a "
             "history invariant: every query valid, no sample queried twice, "
             "exactly ceil(u/batch_size) queries")
RULE = (
    "Cases: registry entry x data set n in [2,10] x complete oracle "
    "labeling (classification: arbitrary / constant / one class never "
    "revealed; regression: real targets) x initially labeled subset with "
    "0..n-1 elements x batch_size in {1,2,3,5} x seed. The loop queries "
    "with candidates=None, reveals the oracle labels of the returned "
    "indices and repeats until no unlabeled sample is left. Distinct = "
    "case hash. Non-trivial = at least 3 cycles and the last cycle has "
    "fewer candidates than the batch size or exactly one candidate.")
RULE += (" Further generated dimensions (added while closing seeded "
         "changes): " + 'per-sample weights on an ordinary or a large scale (x100, x1000); alternative constructor configurations of the registry; n_jobs incl. the default -1' + ".")
ASSUMPTIONS = [
    "the caller's model object is reused across cycles exactly as in the "
    "README loop (fit_clf=True, so the strategy fits a clone)",
    "a cycle whose result is invalid ends the history (later cycles would "
    "be driven by an invalid state)",
    "termination bound 20 s per query",
]
PROFILE = {
    "quick": dict(examples=1600, shards=16, budget_s=85),
    "thorough": dict(examples=20000, shards=16, budget_s=1100),
}


@st.composite
def _case(draw, tier):
    name = draw(st.sampled_from(c01.all_names()))
    ent = poolreg.base_entry(name)
    task = ent["task"]
    if task == "any":
        task = draw(st.sampled_from(["clf", "clf", "reg"]))
    K = draw(st.sampled_from(list(ent["K"])))
    n = draw(st.integers(max(ent["min_n"], 2), min(ent["max_n"], 10)))
    d = draw(st.integers(1, 3))
    X, regime = draw(gen.feature_matrix(n, d))
    if task == "reg":
        ytrue = [round(draw(st.floats(-3, 3)), 2) for _ in range(n)]
        oracle = "real"
    else:
        oracle = draw(st.sampled_from(["any", "any", "constant",
                                       "never_last_class"]))
        if oracle == "constant":
            c = draw(st.integers(0, K - 1))
            ytrue = [c] * n
        elif oracle == "never_last_class":
            ytrue = [draw(st.integers(0, max(K - 2, 0))) for _ in range(n)]
        else:
            ytrue = [draw(st.integers(0, K - 1)) for _ in range(n)]
    n_init = draw(st.sampled_from(sorted({0, 1, 2, n // 2, n - 2, n - 1})))
    n_init = max(0, min(n - 1, n_init))
    perm = draw(st.permutations(list(range(n))))
    init = sorted(perm[:n_init])
    bs = 1 if name.startswith("Parallel") else draw(
        st.sampled_from([1, 1, 2, 3, 5]))
    opts = {"gamma": draw(st.sampled_from([0.3, 1.0, 3.0]))}
    if ent["model"] and ent["model"][0] == "clf" and \
            ent["model"][1] == "pwc" and ent["cls"] in poolreg.ANY_CLF:
        opts["model_key"] = draw(st.sampled_from(
            ["pwc", "pwc", "gnb", "lr", "tree_clf", "pwc_default"]))
    if ent["alt"] and not poolreg.is_wrapper(name) and \
            draw(st.integers(0, 2)) == 0:
        # alternative constructor configuration of the registry entry
        opts["alt_init"] = draw(st.integers(0, len(ent["alt"]) - 1))
    if poolreg.is_wrapper(name):
        opts["max_candidates_int"] = draw(st.integers(1, 6))
        opts["max_candidates_float"] = draw(st.sampled_from(
            [0.1, 0.3, 0.5, 0.8, 1.0]))
        opts["n_jobs"] = draw(st.sampled_from([1, 2, 3, -1]))
    excl = poolreg.is_wrapper(name) and poolreg.entry_of(name)["init"].get(
        "exclude_non_subsample")
    if ent["sample_weight"] and not excl and draw(st.integers(0, 2)) == 0:
        # per-sample weights of the whole pool, ordinary or on a large scale
        scale = draw(st.sampled_from([1, 1, 100, 1000]))
        opts["sample_weight"] = [
            round(draw(st.floats(0.1, 3)), 2) * scale for _ in range(n)]
    return dict(entry=name, X=X, ytrue=ytrue, init=init, K=K, task=task,
                enc="float_nan", batch_size=bs,
                seed=draw(st.integers(0, 2**31 - 1)), opts=opts,
                meta={"regime": regime, "oracle": oracle})


def case_strategy(tier, shard=0, nshards=1):
    return _case(tier)


def run_case(case):
    comp = case["entry"]
    n = len(case["ytrue"])
    yid = [case["ytrue"][i] if i in set(case["init"]) else None
           for i in range(n)]
    u0 = sum(1 for v in yid if v is None)
    bs = case["batch_size"]
    expected_cycles = math.ceil(u0 / bs)
    labels = [f"component={comp}", f"oracle={case['meta']['oracle']}",
              f"init={'0' if not case['init'] else '1+'}",
              f"bs={bs}", f"regime={case['meta']['regime']}",
              f"sample_weight={'none' if not case['opts'].get('sample_weight') else 'large' if max(case['opts']['sample_weight']) > 50 else 'ordinary'}"]
    cyc = dict(case)
    cyc["cand"] = {"mode": "none"}
    cyc["yid"] = yid
    data = poolreg.build_data(cyc)
    ok, built = guarded(poolreg.build_strategy, comp, data, cyc)
    if not ok:
        return Outcome([exc_violation(comp, built, "constructor",
                                      "constructor")], False, labels)
    qs, qk = built
    viol = []
    queried = []
    cycles = 0
    last_ncand = None
    is_sub = comp.startswith("SubSampling")
    while any(v is None for v in cyc["yid"]):
        if cycles > n + 2:
            viol.append(Violation(comp, "loop_does_not_terminate", "any",
                                  f"{cycles} cycles for {u0} samples"))
            break
        data = poolreg.build_data(cyc)
        ncand = sum(1 for v in cyc["yid"] if v is None)
        last_ncand = ncand
        if gen.gnb_zero_variance(cyc):
            # known finding KF-C11-6 (GaussianNB on zero-variance rows):
            # the history ends here, counted, see gen.pool_case
            labels.append("excluded_by_construction=KF-C11-6:"
                          "gnb_zero_variance")
            return Outcome(viol, False, labels)
        ok, res = guarded(qs.query, data["X"].copy(), data["y"].copy(),
                          candidates=None, batch_size=bs, **qk)
        cycles += 1
        stage = "first_cycle" if cycles == 1 else "later_cycle"
        if not ok:
            rc = poolrun.root_cause(cyc)
            viol.append(exc_violation(
                comp, res, rc if rc else f"{stage}&{poolrun.input_class(cyc)}",
                f"cycle {cycles}"))
            break
        k_exp = None
        if is_sub:
            sizes = c01.subsample_sizes(cyc)
            try:
                qlen = len(np.asarray(res).reshape(-1))
            except Exception:
                qlen = -1
            ks = {min(bs, s) for s in sizes}
            k_exp = qlen if qlen in ks else min(ks)
        v, qa = poolrun.check_indices(comp, res, cyc,
                                      poolrun.input_class(cyc),
                                      k_expected=k_exp)
        if v:
            for x in v:
                if x.kind == "duplicate_index":
                    rc = poolrun.root_cause(cyc)
                    x = Violation(comp, x.kind,
                                  rc if rc else c01.tie_info(cyc), x.detail)
                viol.append(x)
            break
        again = [int(i) for i in qa if int(i) in set(queried)]
        if again:
            viol.append(Violation(comp, "sample_queried_twice", stage,
                                  f"{again} in cycle {cycles}"))
            break
        queried += [int(i) for i in qa]
        for i in qa:
            cyc["yid"][int(i)] = case["ytrue"][int(i)]
        cyc["yid"] = list(cyc["yid"])
    if not viol and not is_sub and cycles != expected_cycles:
        viol.append(Violation(comp, "wrong_number_of_queries", "any",
                              f"{cycles} cycles, expected {expected_cycles}"))
    nontrivial = cycles >= 3 and last_ncand is not None and (
        last_ncand < bs or last_ncand == 1)
    labels.append(f"cycles={'1-2' if cycles < 3 else '3-5' if cycles < 6 else '6+'}")
    return Outcome(viol, nontrivial, labels)
