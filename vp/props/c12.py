"""C12 - unlabeled samples do not influence supervised models."""
import numpy as np
from hypothesis import strategies as st

from .. import clfreg
from ..common import (DIFF, HarnessError, Outcome, Violation, arr_close,
                      exc_violation, guarded)

PROPERTY_ID = "C12"
TECHNIQUE = ("Hypothesis-generated paired training sets: the same labeled rows "
             "(same order, same weights) interleaved with two different lists "
             "of unlabeled rows; metamorphic relation on predict_proba / "
             "predict / mean / std of the two fits")
RULE = (
    "Cases: component in {SklearnClassifier[GaussianNB, LogisticRegression, "
    "DecisionTree, KNeighbors, SGD], SklearnRegressor[LinearRegression, "
    "DecisionTree, BayesianRidge, GaussianProcess], SklearnNormalRegressor["
    "BayesianRidge, GaussianProcess], ParzenWindowClassifier (fixed gamma, "
    "n_neighbors=None, prior scalar/array), NICKernelRegressor (fixed "
    "gamma), AnnotatorLogisticRegression (<=3 annotators)} x labeled rows "
    "(0-7) x unlabeled rows of side A (0-4, arbitrary positions, features, "
    "weights) x side B in {labeled subset only, A's unlabeled rows permuted, "
    "duplicated, re-weighted (0 .. 1e3), moved, or replaced by fresh rows} "
    "x sample weights (only if the wrapped fit accepts them) x class "
    "encoding (declared on both sides) x query points. Distinct = distinct "
    "case hash; non-trivial = at least one unlabeled row on side A or B and "
    "at least two labeled rows.")
RULE += (" Further generated dimensions (added while closing seeded "
         "changes): " + 'weights at missing entries of partially labeled rows (AnnotatorLogisticRegression); labels revealed in two steps on one object (reveal); Parzen kernels that are not translation invariant (linear, polynomial, cosine, sigmoid, laplacian); a bulk of 1030-2100 unlabeled rows on side A' + ".")
ASSUMPTIONS = [
    "ParzenWindowClassifier: gamma numeric or scikit-learn's default "
    "1/n_features, n_neighbors=None (gamma='mean' and neighbour limits use "
    "all rows by definition and are excluded by the property)",
    "sample weights of labeled rows are strictly positive; weights of "
    "unlabeled rows are arbitrary non-negative numbers",
    "both sides use the same constructor parameters and random_state; "
    "wrapped estimators are deterministic given random_state",
    "predict is compared only at query points whose deciding margin of the "
    "expected cost exceeds 1e-6 (tie-breaks are free)",
    "tolerance DIFF (rtol 1e-6, atol 1e-8); AnnotatorLogisticRegression "
    "1e-5 (iterative optimiser)",
    "an exception of fit/predict on either side inside this domain is a "
    "violation",
    "NICKernelRegressor without any labeled row is fitted without sample "
    "weights (it rejects weights whose labeled part sums to zero with a "
    "ValueError, which is vacuously the case there)",
]
PROFILE = {
    "quick": dict(examples=4000, shards=16, budget_s=100),
    "thorough": dict(examples=60000, shards=16, budget_s=1100),
}

NAN = float("nan")
ALR_TOL = dict(rtol=1e-5, atol=1e-5)
COMPONENTS = ["SKC", "SKC", "SKC", "SKR", "SKR", "SKNR", "PWC", "PWC",
              "NIC", "NIC", "ALR", "ALR"]
SKC_ESTS = ["GaussianNB", "LogisticRegression", "DecisionTreeClassifier",
            "KNeighborsClassifier", "SGDClassifier"]
SKR_ESTS = ["LinearRegression", "DecisionTreeRegressor", "BayesianRidge",
            "GaussianProcessRegressor"]
SKNR_ESTS = ["BayesianRidge", "GaussianProcessRegressor"]
ENCODINGS = [
    ([0, 1, 2], NAN), ([0, 1, 2], NAN), ([2, 0, 1], -1), ([7, 3, 12], NAN),
    ([12, 7, 3], 999), (["b", "a", "c"], None), (["no", "yes", "10"], "zz"),
]
VARIANTS = ["reweight", "subset", "permute", "duplicate", "reweight", "move",
            "fresh", "subset", "fresh", "reveal", "reveal"]

coord = st.integers(-400, 400).map(lambda v: v / 100.0)
lattice = st.integers(-2, 2).map(float)
target = st.integers(-300, 300).map(lambda v: v / 100.0)
seeds = st.integers(0, 2**16)
pos_weight = st.sampled_from([0.25, 0.5, 1.0, 1.0, 2.0, 3.5])
any_weight = st.sampled_from([0.0, 0.0, 0.25, 1.0, 7.5, 1000.0])


@st.composite
def _sk_spec(draw, name):
    params = {}
    if clfreg.sk_info(name)["random_state"]:
        params["random_state"] = draw(seeds)
    if name in ("LogisticRegression", "SGDClassifier") and draw(
            st.integers(0, 3)) == 0:
        # estimators that keep state across fit calls unless re-copied
        params["warm_start"] = True
    return {"name": name, "params": params}


@st.composite
def _case(draw):
    comp = draw(st.sampled_from(COMPONENTS))
    d = draw(st.integers(1, 2))
    elem = draw(st.sampled_from([coord, coord, lattice]))
    row = st.lists(elem, min_size=d, max_size=d)
    rs = draw(seeds)
    labels, missing, K, A = None, NAN, None, None
    is_clf = comp in ("SKC", "PWC", "ALR")
    if is_clf:
        labels, missing = draw(st.sampled_from(ENCODINGS))
        K = draw(st.sampled_from([2, 3, 3]))
        labels = list(labels[:K])
    else:
        missing = draw(st.sampled_from([NAN, NAN, NAN, -1000.0]))

    # ---------------------------------------------------- configuration --
    if comp == "SKC":
        cfg = {"kind": "SklearnClassifier", "classes": labels,
               "missing_label": missing, "cost_matrix": None,
               "random_state": rs,
               "params": {"estimator": draw(_sk_spec(
                   draw(st.sampled_from(SKC_ESTS))))}}
    elif comp in ("SKR", "SKNR"):
        name = draw(st.sampled_from(SKR_ESTS if comp == "SKR" else SKNR_ESTS))
        cfg = {"kind": ("SklearnRegressor" if comp == "SKR"
                        else "SklearnNormalRegressor"),
               "missing_label": missing, "random_state": rs,
               "params": {"estimator": draw(_sk_spec(name))}}
    elif comp == "PWC":
        gamma = draw(st.sampled_from([None, 0.1, 0.5, 1.0, 2.0]))
        prior = draw(st.sampled_from(["zero", "scalar", "array"]))
        prior = (0.0 if prior == "zero" else
                 draw(st.sampled_from([0.5, 1.0])) if prior == "scalar" else
                 draw(st.lists(st.sampled_from([0.0, 0.5, 2.0]),
                               min_size=K, max_size=K)))
        cfg = {"kind": "ParzenWindowClassifier", "classes": labels,
               "missing_label": missing, "cost_matrix": None,
               "random_state": rs,
               "params": {"n_neighbors": None, "metric": "rbf",
                          "metric_dict": (None if gamma is None
                                          else {"gamma": gamma}),
                          "class_prior": prior}}
        if draw(st.integers(0, 3)) == 0:
            # kernels that are not translation invariant (fixed parameters)
            metric, md = draw(st.sampled_from([
                ("linear", None), ("polynomial", {"degree": 2, "gamma": 0.5,
                                                  "coef0": 1.0}),
                ("cosine", None), ("laplacian", {"gamma": 0.5}),
                ("sigmoid", {"gamma": 0.1, "coef0": 0.5})]))
            cfg["params"]["metric"] = metric
            cfg["params"]["metric_dict"] = md
    elif comp == "NIC":
        gamma = draw(st.sampled_from([None, 0.1, 0.5, 1.0, 2.0]))
        params = {"metric": "rbf",
                  "metric_dict": None if gamma is None else {"gamma": gamma}}
        if draw(st.booleans()):
            params.update(mu_0=draw(st.sampled_from([0, 1.5, -2])),
                          kappa_0=draw(st.sampled_from([0.1, 1.0])),
                          sigma_sq_0=draw(st.sampled_from([1.0, 0.5])),
                          nu_0=draw(st.sampled_from([2.5, 3.0, 5])))
        cfg = {"kind": "NICKernelRegressor", "missing_label": missing,
               "random_state": rs, "params": params}
    else:
        A = draw(st.integers(1, 3))
        cfg = {"kind": "AnnotatorLogisticRegression", "classes": labels,
               "missing_label": missing, "cost_matrix": None,
               "random_state": rs,
               "params": {"max_iter": draw(st.integers(1, 3)),
                          "solver_dict": {"maxiter": 5},
                          "fit_intercept": draw(st.booleans()),
                          "weights_prior": draw(st.sampled_from([0.5, 1,
                                                                 10.0])),
                          "n_annotators": draw(st.sampled_from([None, A]))}}

    # -------------------------------------------------------- labeled rows --
    n_lab = draw(st.sampled_from([2, 3, 4, 2, 3, 5, 6, 7, 1, 0]))
    Xl = [draw(row) for _ in range(n_lab)]
    if comp == "ALR":
        yl = []
        for _ in range(n_lab):
            r = draw(st.lists(st.integers(-1, K - 1), min_size=A, max_size=A))
            if all(v < 0 for v in r):
                r[draw(st.integers(0, A - 1))] = draw(st.integers(0, K - 1))
            yl.append(r)
    elif is_clf:
        yl = draw(st.lists(st.integers(0, K - 1), min_size=n_lab,
                           max_size=n_lab))
    else:
        yl = draw(st.lists(target, min_size=n_lab, max_size=n_lab))
    weighted = clfreg.accepts_sample_weight(cfg) and draw(st.booleans())
    if comp == "ALR":
        weighted = weighted and draw(st.integers(0, 2)) == 0
        if n_lab == 0:
            # zero-row fits need the number of annotators
            cfg["params"]["n_annotators"] = A
    if comp == "NIC" and n_lab == 0:
        # NICKernelRegressor rejects weights whose labeled part sums to zero
        # (documented ValueError); vacuously true without labeled rows
        weighted = False
    if weighted:
        if comp == "ALR":
            wl = [draw(st.lists(pos_weight, min_size=A, max_size=A))
                  for _ in range(n_lab)]
        else:
            wl = draw(st.lists(pos_weight, min_size=n_lab, max_size=n_lab))
    else:
        wl = None

    # ------------------------------------------------------- unlabeled rows --
    def unl_weight():
        if not weighted:
            return None
        if comp == "ALR":
            return draw(st.lists(any_weight, min_size=A, max_size=A))
        return draw(any_weight)

    n_unl = draw(st.sampled_from([1, 2, 1, 2, 3, 4, 0]))
    UA = [{"x": draw(row), "w": unl_weight(),
           "pos": draw(st.integers(0, n_lab))} for _ in range(n_unl)]
    variant = draw(st.sampled_from(VARIANTS))
    if variant == "reweight" and not weighted:
        variant = "move"
    hidden = []
    if variant == "reveal":
        # side A reveals the labels in two steps on ONE estimator object and
        # with the SAME array objects (X, sample_weight); side B is a fresh fit
        if n_lab >= 1:
            hidden = sorted(set(draw(st.lists(st.integers(0, n_lab - 1),
                                              min_size=1, max_size=n_lab))))
        UB = [dict(u) for u in UA] if draw(st.booleans()) else []
    elif variant == "subset":
        UB = []
    elif variant == "permute":
        perm = draw(st.permutations(list(range(n_unl))))
        UB = [{"x": UA[perm[i]]["x"], "w": UA[perm[i]]["w"],
               "pos": UA[i]["pos"]} for i in range(n_unl)]
    elif variant == "duplicate":
        UB = [dict(u) for u in UA]
        for u in UA:
            for _ in range(draw(st.integers(1, 2))):
                UB.append({"x": list(u["x"]), "w": u["w"],
                           "pos": draw(st.integers(0, n_lab))})
    elif variant == "reweight":
        UB = [{"x": list(u["x"]), "w": unl_weight(), "pos": u["pos"]}
              for u in UA]
    elif variant == "move":
        UB = [{"x": list(u["x"]), "w": u["w"],
               "pos": draw(st.integers(0, n_lab))} for u in UA]
    else:
        UB = [{"x": draw(row), "w": unl_weight(),
               "pos": draw(st.integers(0, n_lab))}
              for _ in range(draw(st.integers(0, 4)))]

    nq = draw(st.integers(1, 3))
    Xq = []
    for _ in range(nq):
        if n_lab and draw(st.booleans()):
            Xq.append(list(Xl[draw(st.integers(0, n_lab - 1))]))
        else:
            Xq.append(draw(st.lists(coord, min_size=d, max_size=d)))
    case = dict(component=clfreg.label(cfg), cfg=cfg, labels=labels,
                n_annotators=A, Xl=Xl, yl=yl, wl=wl, UA=UA, UB=UB,
                variant=variant, Xq=Xq, hidden=hidden)
    if variant != "reveal" and draw(st.integers(0, 29)) == 0:
        # side A only: a bulk of more than a thousand unlabeled rows (drawn in
        # the check from the given seed, to keep the case small) before,
        # after or in the middle of the labeled rows
        case["bulk"] = {"n": draw(st.sampled_from([1030, 1100, 1500, 2100])),
                        "seed": draw(st.integers(0, 99)),
                        "pos": draw(st.sampled_from(["front", "front",
                                                     "middle", "back"]))}
    if comp == "ALR" and weighted and draw(st.booleans()):
        # a missing ENTRY of a partially labeled row is an unlabeled sample
        # of that annotator: its weight is irrelevant as well (side B gets
        # other weights exactly at the missing entries)
        wl_b = [[(draw(any_weight) if yl[i][j] < 0 else wl[i][j])
                 for j in range(A)] for i in range(n_lab)]
        if wl_b != wl:
            case["wl_B"] = wl_b
    return case


def case_strategy(tier, shard=0, nshards=1):
    return _case()


# ------------------------------------------------------------------ oracle --
def _assemble(case, U, side="A"):
    """Interleave the labeled rows (fixed order) with the unlabeled entries
    U (entry u is placed before labeled row u['pos'], list order kept).
    Returns X, y (index coded / real with None), w."""
    n_lab = len(case["Xl"])
    A = case["n_annotators"]
    is_clf = case["labels"] is not None
    miss = ([-1] * A if A else -1) if is_clf else None
    X, y, w = [], [], []
    for p in range(n_lab + 1):
        for u in U:
            if u["pos"] == p:
                X.append(list(u["x"]))
                y.append(list(miss) if isinstance(miss, list) else miss)
                w.append(u["w"])
        if p < n_lab:
            X.append(list(case["Xl"][p]))
            y.append(case["yl"][p])
            wl = (case.get("wl_B") if side == "B" and case.get("wl_B")
                  else case["wl"])
            w.append(None if wl is None else wl[p])
    if case["wl"] is None:
        w = None
    bulk = case.get("bulk")
    if bulk and side == "A":
        d = len(case["Xq"][0])
        rs = np.random.RandomState(bulk["seed"])
        rows = np.round(rs.uniform(-3, 3, size=(bulk["n"], d)), 2).tolist()
        at = {"front": 0, "back": len(X), "middle": len(X) // 2}[bulk["pos"]]
        miss_y = [list(miss) if isinstance(miss, list) else miss
                  for _ in rows]
        X = X[:at] + rows + X[at:]
        y = y[:at] + miss_y + y[at:]
        if w is not None:
            one = [1.0] * A if A else 1.0
            w = w[:at] + [one] * len(rows) + w[at:]
    return X, y, w


def _arrays(case, X, y, w):
    cfg = case["cfg"]
    d = len(case["Xq"][0])
    n = len(X)
    Xa = np.array(X, dtype=float).reshape(n, d) if n else []
    if case["labels"] is not None:
        ya = clfreg.make_y(y, case["labels"], cfg["missing_label"]) if n else []
    else:
        ya = np.array([cfg["missing_label"] if v is None else v for v in y],
                      dtype=float) if n else []
    wa = None if w is None else np.array(w, dtype=float)
    if n == 0:
        wa = None
    return Xa, ya, wa


def _observe(case, X, y, w, hidden=None):
    """Fit one side and collect the observables. With `hidden` (positions of
    labeled rows in the assembled arrays) the labels are revealed in two
    steps on the same estimator with the same X / sample_weight objects."""
    cfg = case["cfg"]
    est = clfreg.build(cfg)
    Xa, ya, wa = _arrays(case, X, y, w)
    kw = {} if wa is None else {"sample_weight": wa}
    if hidden:
        y1 = ya.copy()
        _, y_miss, _ = _arrays(case, X, [
            (None if case["labels"] is None else
             ([-1] * case["n_annotators"] if case["n_annotators"] else -1))
            for _ in y], w)
        for i in hidden:
            y1[i] = y_miss[i]
        est.fit(Xa, y1, **kw)
    est.fit(Xa, ya, **kw)
    Xq = np.array(case["Xq"], dtype=float)
    out = {}
    if cfg["kind"] in clfreg.CLASSIFIER_KINDS:
        out["classes_"] = np.asarray(est.classes_).tolist()
        out["proba"] = np.asarray(est.predict_proba(Xq), dtype=float)
        out["predict"] = np.asarray(est.predict(Xq)).tolist()
        if clfreg.has_predict_freq(cfg):
            out["freq"] = np.asarray(est.predict_freq(Xq), dtype=float)
    else:
        std = (cfg["kind"] in ("NICKernelRegressor", "SklearnNormalRegressor")
               or clfreg.sk_info(cfg["params"]["estimator"]["name"]).get(
                   "return_std", False))
        if std:
            m, s = est.predict(Xq, return_std=True)
            out["mean"] = np.asarray(m, dtype=float)
            out["std"] = np.asarray(s, dtype=float)
        else:
            out["mean"] = np.asarray(est.predict(Xq), dtype=float)
    return out


def _is_missing_row(v, is_clf):
    if not is_clf:
        return v is None
    if isinstance(v, list):
        return all(x == -1 or x is None for x in v)
    return v is None or v == -1


def run_case(case):
    cfg = case["cfg"]
    comp = clfreg.label(cfg)
    kind = cfg["kind"]
    n_lab = len(case["Xl"])
    nA, nB = len(case["UA"]), len(case["UB"])
    weighted = case["wl"] is not None
    lab = [f"component={comp}", f"variant={case['variant']}",
           f"weights={weighted}",
           f"n_labeled={'0' if n_lab == 0 else '1' if n_lab == 1 else '2+'}",
           f"unlabeled_A={min(nA, 2)}{'+' if nA >= 2 else ''}",
           f"unlabeled_B={min(nB, 2)}{'+' if nB >= 2 else ''}"]
    if case["labels"] is not None:
        lab.append(f"classes={'str' if isinstance(case['labels'][0], str) else 'arange' if clfreg.is_arange(case['labels']) else 'ints'}")
    if case.get("wl_B"):
        lab.append("missing_entry_reweighted")
    if case.get("bulk"):
        lab.append(f"bulk_unlabeled={case['bulk']['pos']}")
    if kind == "ParzenWindowClassifier":
        lab.append(f"pwc_metric={cfg['params'].get('metric', 'rbf')}")
    viol = []
    sides = {}
    for name, U in (("A", case["UA"]), ("B", case["UB"])):
        for u in U:
            if not 0 <= u["pos"] <= n_lab:
                raise HarnessError("unlabeled position out of range")
        X, y, w = _assemble(case, U, name)
        hid = None
        if name == "A" and case.get("hidden"):
            is_clf = case["labels"] is not None
            miss_rows = [i for i, v in enumerate(y)
                         if _is_missing_row(v, is_clf)]
            lab_rows = [i for i in range(len(y)) if i not in set(miss_rows)]
            hid = [lab_rows[p] for p in case["hidden"] if p < len(lab_rows)]
            if (kind == "NICKernelRegressor" and weighted
                    and len(hid) == len(lab_rows)):
                # NICKernelRegressor documents a rejection of weights whose
                # labeled part sums to zero (no labeled row at all)
                hid = hid[:-1]
        ok, r = guarded(_observe, case, X, y, w, hid)
        if not ok:
            trig = "valid_input"
            if (kind == "AnnotatorLogisticRegression" and weighted and U
                    and n_lab > 0):
                trig = "sample_weight&fully_unlabeled_row"
            viol.append(exc_violation(comp, r, trig, f"side {name}"))
        else:
            sides[name] = r
    nontrivial = ((nA + nB) >= 1 or bool(case.get("wl_B"))
                  or bool(case.get("bulk"))) and n_lab >= 2
    if viol or len(sides) < 2:
        return Outcome(viol, nontrivial and not viol, lab)

    a, b = sides["A"], sides["B"]
    if (kind == "ParzenWindowClassifier"
            and cfg["params"].get("metric", "rbf") not in ("rbf",
                                                           "laplacian")):
        # kernels that take negative values: class frequencies are sums with
        # cancellation, a total mass of exactly 0 versus 1e-18 (summation
        # order changes with the number of rows) flips the normalised
        # probabilities between "uniform" and "one-hot". Only the frequency
        # estimates themselves are compared for these kernels.
        for side in (a, b):
            side.pop("proba", None)
            side.pop("predict", None)
        lab.append("compared=freq_only")
    tol = ALR_TOL if kind == "AnnotatorLogisticRegression" else DIFF
    trig = f"weights={weighted}&variant={case['variant']}"
    if case.get("wl_B"):
        trig += "&missing_entry_reweighted"
    for key in ("proba", "freq", "mean", "std"):
        if key in a and not arr_close(a[key], b[key], **tol):
            viol.append(Violation(
                comp, f"{key}_depends_on_unlabeled_rows", trig,
                f"side A (unlabeled rows {nA}) {key}={a[key].tolist()} vs "
                f"side B (unlabeled rows {nB}) {key}={b[key].tolist()}"))
            break
    if "classes_" in a and a["classes_"] != b["classes_"]:
        viol.append(Violation(comp, "classes_differ", trig,
                              f"{a['classes_']} vs {b['classes_']}"))
    if "predict" in a and not viol:
        P = a["proba"]
        costs = P @ (1.0 - np.eye(P.shape[1]))
        srt = np.sort(costs, axis=1)
        decided = (srt[:, 1] - srt[:, 0] > 1e-6) if P.shape[1] > 1 else \
            np.ones(len(P), dtype=bool)
        bad = [i for i in range(len(P)) if decided[i]
               and a["predict"][i] != b["predict"][i]]
        if bad:
            viol.append(Violation(
                comp, "predict_depends_on_unlabeled_rows", trig,
                f"queries {bad}: {a['predict']} vs {b['predict']} with "
                f"P={P.tolist()}"))
    return Outcome(viol, nontrivial and not viol, lab)
