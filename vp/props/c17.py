"""C17 - annotation aggregation equals plain counting:
compute_vote_vectors / majority_vote / ext_confusion_matrix.

The case stores the real label values (numbers / strings / None / NaN); the
reference model is a triple loop over samples x annotators x classes in plain
Python that decides "missing" element by element (shared with C16).
"""
import numpy as np
from hypothesis import strategies as st

from ..common import (array_fingerprint, DIFF, Outcome, Violation, arr_close, exc_violation,
                      guarded)
from .c16 import _weighted, eq, is_missing, ml_tag, ml_value

PROPERTY_ID = "C17"
TECHNIQUE = ("Hypothesis-generated label matrices (missing pattern x weights "
             "x label encoding x explicit/implicit classes) against a "
             "pure-Python counting model (triple loop)")
RULE = (
    "Cases: function in {compute_vote_vectors, majority_vote, "
    "ext_confusion_matrix(normalize in None/'true'/'pred'/'all')} x label "
    "matrix with n<=10 samples (n=0 for compute_vote_vectors), <=4 "
    "annotators (1-D input for one annotator), K<=4 declared classes, "
    "arbitrary missing pattern x weights {None, finite non-negative matrix "
    "incl. zeros} x encoding {float/NaN, float 10..40/NaN, float/-1, int/-1, "
    "int/99, '<U'/'zz', '<U'/'', object str/None, object int/None} x classes "
    "{implicit, explicit superset} x container {ndarray, nested list}. "
    "Distinct = distinct case hash; non-trivial = at least one missing and "
    "one present label with >=2 annotators (majority_vote cases with a tied "
    "row are counted separately as tie=yes).")
RULE += (" Further generated dimensions (added while closing seeded "
         "changes): " + 'Fortran-ordered and strided label / weight matrices; integer classes that are not 0..K-1; argument arrays unchanged by value' + ".")
ASSUMPTIONS = [
    "weights are finite and non-negative (NaN weights are treated as 0 by "
    "the code but this is undocumented - not generated)",
    "explicit classes are a superset of the observed labels; for "
    "compute_vote_vectors and ext_confusion_matrix they are passed sorted "
    "(column/row j <-> j-th sorted class; the docstrings do not say which "
    "order an unsorted list would induce); majority_vote also gets shuffled "
    "class lists (its result is a label, not an index)",
    "compute_vote_vectors with implicit classes and no label at all: a "
    "ValueError or an (n,0) array are both accepted; with n=0 samples a "
    "ValueError or a (0,K) array are both accepted",
    "majority_vote / ext_confusion_matrix require n>=1 (check_array)",
    "confusion-matrix entries whose normaliser is zero are only required to "
    "be finite and within [0,1]",
    "a returned majority class may be any class whose reference vote is "
    "within 1e-9 (relative) of the row maximum",
    "y_true of ext_confusion_matrix never contains the sentinel (documented "
    "ValueError otherwise)",
]
PROFILE = {
    "quick": dict(examples=6000, shards=16, budget_s=90),
    "thorough": dict(examples=100000, shards=16, budget_s=900),
}

ENC = {
    "float_nan": dict(dtype="float", labels=[0.0, 1.0, 2.0, 3.0],
                      ml={"t": "nan"}),
    "float10_nan": dict(dtype="float", labels=[10.0, 20.0, 30.0, 40.0],
                        ml={"t": "nan"}),
    "float_m1": dict(dtype="float", labels=[0.0, 1.0, 2.0, 3.0],
                     ml={"t": "float", "v": -1.0}),
    "int_m1": dict(dtype="int", labels=[0, 1, 2, 3],
                   ml={"t": "int", "v": -1}),
    "int_99": dict(dtype="int", labels=[7, 100, 3, 5],
                   ml={"t": "int", "v": 99}),
    # small non-negative integer classes that are NOT 0..K-1 (while every
    # label may still be smaller than the number of classes)
    "int_m1_shift": dict(dtype="int", labels=[1, 2, 3, 4],
                         ml={"t": "int", "v": -1}),
    "int_m1_gap": dict(dtype="int", labels=[0, 2, 4, 1],
                       ml={"t": "int", "v": -1}),
    "str_zz": dict(dtype="str", labels=["a", "b", "zzz", "B"],
                   ml={"t": "str", "v": "zz"}),
    "str_empty": dict(dtype="str", labels=["x", "y", "z", "w"],
                      ml={"t": "str", "v": ""}),
    "obj_none": dict(dtype="object", labels=["b", "a", "dd", "c"],
                     ml={"t": "none"}),
    "objnum_none": dict(dtype="object", labels=[2, 0, 1, 3],
                        ml={"t": "none"}),
}
W_POOL = [0.0, 0.0, 0.5, 1.0, 1.0, 2.0, 3.0]
W_POS = [0.5, 1.0, 1.0, 2.0, 3.0, 0.25]


# ------------------------------------------------------------ strategy ----
@st.composite
def _case(draw):
    fn = draw(st.sampled_from(["vote_vectors", "majority_vote",
                               "confusion", "confusion"]))
    enc = draw(st.sampled_from(sorted(ENC)))
    e = ENC[enc]
    K = draw(st.integers(1, 4))
    labels = e["labels"][:K]
    n_min = 0 if fn == "vote_vectors" else 1
    n = draw(_weighted((1, st.integers(n_min, 3)), (3, st.integers(1, 10))))
    A = draw(st.sampled_from([1, 2, 2, 3, 3, 4]))
    miss = draw(st.sampled_from([0, 1, 1, 2, 3, 5]))
    cell = st.sampled_from([-1] * miss + list(range(K)) * 2)
    idx = [[draw(cell) for _ in range(A)] for _ in range(n)]
    if n and draw(st.integers(0, 5)) == 0:
        # a sample without any label
        idx[draw(st.integers(0, n - 1))] = [-1] * A
    stored = {"nan": float("nan"), "none": None}.get(
        e["ml"]["t"], e["ml"].get("v"))
    y = [[stored if k < 0 else labels[k] for k in row] for row in idx]
    one_d = A == 1 and draw(st.booleans())
    container = draw(st.sampled_from(["ndarray", "list"])) if n else "ndarray"
    explicit = draw(st.booleans())
    classes = None
    if explicit:
        classes = sorted(labels)
        if fn == "majority_vote":
            classes = list(draw(st.permutations(classes)))
    case = dict(fn=fn, enc=enc, dtype=e["dtype"], ml=dict(e["ml"]),
                y=[r[0] for r in y] if one_d else y, one_d=one_d,
                n=n, n_annotators=A, container=container, classes=classes,
                classes_container=draw(st.sampled_from(["list", "ndarray"])))
    if fn in ("vote_vectors", "majority_vote"):
        w = None
        if draw(st.sampled_from([True, True, False])):
            pool = draw(st.sampled_from([W_POOL, W_POOL, W_POS]))
            wel = _weighted((4, st.sampled_from(pool)),
                            (1, st.floats(min_value=0.0, max_value=100.0,
                                          allow_nan=False, width=64)))
            w = [[draw(wel) + 0.0 for _ in range(A)] for _ in range(n)]
            if one_d:
                w = [r[0] for r in w]
        case["w"] = w
    if container == "ndarray" and not one_d:
        lay = st.sampled_from([None, None, "F", "strided"])
        case["y_layout"] = draw(lay)
        case["w_layout"] = draw(lay)
    if fn == "majority_vote":
        case["random_state"] = draw(st.integers(0, 2**31 - 1))
    if fn == "confusion":
        case["normalize"] = draw(st.sampled_from([None, "true", "pred",
                                                  "all"]))
        yt = [labels[draw(st.integers(0, K - 1))] for _ in range(n)]
        case["y_true"] = yt
        case["y_true_container"] = draw(st.sampled_from(["ndarray", "list"]))
        case["y_true_as_int"] = bool(
            e["dtype"] == "float" and e["ml"]["t"] == "nan"
            and draw(st.booleans()))
    return case


def case_strategy(tier, shard=0, nshards=1):
    return _case()


# ------------------------------------------------------------ builders ----
def _np_dtype(dtype):
    return {"float": float, "int": int, "str": str, "object": object}[dtype]


def _arr(vals, dtype, shape):
    if dtype == "object":
        a = np.empty(int(np.prod(shape)), dtype=object)
        flat = [v for r in vals for v in r] if len(shape) == 2 else list(vals)
        for i, v in enumerate(flat):
            a[i] = v
        return a.reshape(shape)
    if dtype == "str" and int(np.prod(shape)) == 0:
        return np.empty(shape, dtype="<U1")
    return np.array(vals, dtype=_np_dtype(dtype)).reshape(shape)


def build_y(case):
    shape = ((case["n"],) if case["one_d"]
             else (case["n"], case["n_annotators"]))
    if case["container"] == "list":
        return ([list(r) for r in case["y"]] if not case["one_d"]
                else list(case["y"]))
    return _layout(_arr(case["y"], case["dtype"], shape),
                   case.get("y_layout"))


def _layout(a, layout):
    """Memory layout of a 2-D ndarray argument: C (default), Fortran order
    (e.g. the transpose of a per-annotator array) or a strided view."""
    if layout is None or a.ndim != 2 or a.size == 0:
        return a
    if layout == "F":
        return np.asfortranarray(a)
    if layout == "strided":
        big = np.zeros((a.shape[0], 2 * a.shape[1]), dtype=a.dtype)
        big[:, ::2] = a
        return big[:, ::2]
    return a


def build_w(case):
    w = case.get("w")
    if w is None:
        return None
    if case["container"] == "list":
        return [list(r) for r in w] if not case["one_d"] else list(w)
    return _layout(np.array(w, dtype=float).reshape(
        (case["n"],) if case["one_d"] else (case["n"], case["n_annotators"])),
        case.get("w_layout"))


def build_classes(case):
    if case["classes"] is None:
        return None
    if case["classes_container"] == "ndarray":
        return np.array(case["classes"])
    return list(case["classes"])


def build_y_true(case):
    yt = case["y_true"]
    if case.get("y_true_as_int"):
        yt = [int(v) for v in yt]
        return (np.array(yt, dtype=int)
                if case["y_true_container"] == "ndarray" else yt)
    if case["y_true_container"] == "list":
        return list(yt)
    return _arr(yt, case["dtype"], (len(yt),))


# ------------------------------------------------------------ reference ----
def _rows(case):
    y = case["y"]
    return [[v] for v in y] if case["one_d"] else [list(r) for r in y]


def _wrows(case):
    w = case.get("w")
    if w is None:
        return None
    return [[v] for v in w] if case["one_d"] else [list(r) for r in w]


def _ref_classes(case, extra=()):
    """Sorted class list the code documents: explicit classes (sorted) or the
    sorted observed labels."""
    ml = case["ml"]
    if case["classes"] is not None:
        src = list(case["classes"])
    else:
        src = [v for r in _rows(case) for v in r if not is_missing(v, ml)]
        src += list(extra)
    uniq = []
    for v in src:
        if not any(eq(v, c) for c in uniq):
            uniq.append(v)
    return sorted(uniq)


def _ref_votes(case, classes):
    ml = case["ml"]
    rows, wr = _rows(case), _wrows(case)
    V = [[0.0] * len(classes) for _ in rows]
    for i, row in enumerate(rows):
        for a, v in enumerate(row):
            if is_missing(v, ml):
                continue
            for j, c in enumerate(classes):
                if eq(v, c):
                    V[i][j] += 1.0 if wr is None else float(wr[i][a])
    return V


def _common_labels(case):
    ml = case["ml"]
    rows = _rows(case)
    flat = [is_missing(v, ml) for r in rows for v in r]
    n_miss = sum(flat)
    pattern = ("empty" if not flat else "none_missing" if n_miss == 0 else
               "all_missing" if n_miss == len(flat) else "some_missing")
    nontrivial = (0 < n_miss < len(flat)) and case["n_annotators"] >= 2
    labels = [f"enc={case['enc']}", f"container={case['container']}",
              f"annotators={case['n_annotators']}",
              f"n={'0' if case['n'] == 0 else '1-3' if case['n'] <= 3 else '4-10'}",
              f"missing={pattern}",
              f"classes={'explicit' if case['classes'] is not None else 'implicit'}",
              f"one_d={case['one_d']}",
              f"unlabeled_row={any(all(is_missing(v, ml) for v in r) for r in rows)}"]
    return labels, nontrivial, n_miss, len(flat)


def _trig(case):
    return (f"{case['enc']}/classes="
            f"{'explicit' if case['classes'] is not None else 'implicit'}"
            f"/w={'yes' if case.get('w') is not None else 'none'}")


# --------------------------------------------------------------- checks ----
def _check_vote_vectors(case):
    from skactiveml.utils import compute_vote_vectors
    comp = "compute_vote_vectors"
    labels, nontrivial, n_miss, size = _common_labels(case)
    labels = [f"component={comp}"] + labels + [
        f"weights={'none' if case.get('w') is None else 'matrix'}"]
    trig = _trig(case)
    classes = _ref_classes(case)
    y_arg, w_arg = build_y(case), build_w(case)
    fp = (array_fingerprint(y_arg), array_fingerprint(w_arg))
    ok, r = guarded(compute_vote_vectors, y_arg, w=w_arg,
                    classes=build_classes(case),
                    missing_label=ml_value(case["ml"]))
    if ok and isinstance(w_arg, np.ndarray) and \
            array_fingerprint(w_arg) != fp[1]:
        # a caller re-using its weight array for the next call (labels
        # revealed in between) would get wrong counts there
        return Outcome([Violation(
            comp, "weights_argument_modified", "w=float64_ndarray",
            "the caller's weight array was changed in place")],
            nontrivial, labels)
    if ok and isinstance(y_arg, np.ndarray) and \
            array_fingerprint(y_arg) != fp[0]:
        return Outcome([Violation(comp, "labels_argument_modified",
                                  "y=ndarray", "")], nontrivial, labels)
    if not classes:
        labels.append("no_class_inferable")
        if not ok and isinstance(r, ValueError):
            return Outcome([], False, labels)
        if ok and np.asarray(r).shape == (case["n"], 0):
            return Outcome([], False, labels)
        if not ok:
            return Outcome([exc_violation(comp, r, "no_label&implicit_classes",
                                          "call")], False, labels)
        return Outcome([Violation(comp, "bad_shape",
                                  "no_label&implicit_classes",
                                  f"shape {np.asarray(r).shape}")],
                       False, labels)
    if not ok and case["n"] == 0 and isinstance(r, ValueError):
        # empty input: a clean rejection (check_array of the weights) is fine
        return Outcome([], False, labels + ["empty_rejected"])
    if not ok:
        return Outcome([exc_violation(comp, r, trig, "call")], False, labels)
    V = _ref_votes(case, classes)
    r = np.asarray(r)
    viol = []
    if r.shape != (case["n"], len(classes)):
        viol.append(Violation(comp, "bad_shape", trig,
                              f"shape {r.shape} want "
                              f"{(case['n'], len(classes))}"))
    elif case["n"] and not arr_close(r, V, **DIFF):
        viol.append(Violation(comp, "vote_mismatch", trig,
                              f"got {r.tolist()} want {V} classes {classes}"))
    if case.get("w") is not None:
        zero_w = any(float(x) == 0.0 for x in np.ravel(case["w"]))
        labels.append(f"zero_weight={zero_w}")
    return Outcome(viol, nontrivial, labels)


def _check_majority_vote(case):
    from skactiveml.utils import majority_vote
    comp = "majority_vote"
    ml = case["ml"]
    labels, nontrivial, n_miss, size = _common_labels(case)
    labels = [f"component={comp}"] + labels + [
        f"weights={'none' if case.get('w') is None else 'matrix'}"]
    trig = _trig(case)
    classes = _ref_classes(case)
    V = _ref_votes(case, classes)
    rows = _rows(case)

    def call():
        return majority_vote(build_y(case), w=build_w(case),
                             classes=build_classes(case),
                             missing_label=ml_value(ml),
                             random_state=case["random_state"])
    ok, r = guarded(call)
    if not ok:
        return Outcome([exc_violation(comp, r, trig, "call")], False, labels)
    viol = []
    r = np.asarray(r)
    if r.shape != (case["n"],):
        viol.append(Violation(comp, "bad_shape", trig,
                              f"shape {r.shape} want {(case['n'],)}"))
        return Outcome(viol, False, labels)
    got = r.tolist()
    tie = False
    for i, row in enumerate(rows):
        g = got[i]
        has_label = any(not is_missing(v, ml) for v in row)
        if not has_label:
            if not is_missing(g, ml):
                viol.append(Violation(
                    comp, "unlabeled_row_not_sentinel", trig,
                    f"row {i} {row}: got {g!r} (result {got})"))
                break
            continue
        j = [k for k, c in enumerate(classes) if eq(g, c)]
        if is_missing(g, ml) or not j:
            viol.append(Violation(comp, "labeled_row_got_non_class", trig,
                                  f"row {i} {row}: got {g!r} classes "
                                  f"{classes}"))
            break
        m = max(V[i])
        if V[i][j[0]] < m - 1e-9 * max(1.0, m):
            viol.append(Violation(
                comp, "not_a_maximal_class", trig,
                f"row {i} {row} weights "
                f"{None if case.get('w') is None else _wrows(case)[i]}: got "
                f"{g!r} with vote {V[i][j[0]]}, votes {V[i]} for {classes}"))
            break
        if sum(1 for x in V[i] if x == m) >= 2:
            tie = True
    ok2, r2 = guarded(call)
    if not ok2 or np.asarray(r2).shape != r.shape or any(
            not (is_missing(a, ml) and is_missing(b, ml)) and not eq(a, b)
            for a, b in zip(np.asarray(r2).tolist(), got)):
        viol.append(Violation(comp, "not_reproducible", "same_random_state",
                              f"{got} vs {r2!r}"))
    labels.append(f"tie={'yes' if tie else 'no'}")
    if case.get("w") is not None:
        labels.append("zero_weight=%s" % any(
            float(x) == 0.0 for x in np.ravel(case["w"])))
    return Outcome(viol, nontrivial, labels)


def _check_confusion(case):
    from skactiveml.utils import ext_confusion_matrix
    comp = "ext_confusion_matrix"
    ml, norm = case["ml"], case["normalize"]
    labels, nontrivial, n_miss, size = _common_labels(case)
    labels = [f"component={comp}"] + labels + [f"normalize={norm}"]
    trig = f"normalize={norm}"
    classes = _ref_classes(case, extra=case["y_true"])
    K, A = len(classes), case["n_annotators"]
    rows = _rows(case)
    C = [[[0.0] * K for _ in range(K)] for _ in range(A)]
    for i, row in enumerate(rows):
        ti = [k for k, c in enumerate(classes) if eq(case["y_true"][i], c)][0]
        for a, v in enumerate(row):
            if is_missing(v, ml):
                continue
            pj = [k for k, c in enumerate(classes) if eq(v, c)][0]
            C[a][ti][pj] += 1.0
    C = np.array(C, dtype=float).reshape(A, K, K)
    ok, r = guarded(ext_confusion_matrix, build_y_true(case), build_y(case),
                    classes=build_classes(case), missing_label=ml_value(ml),
                    normalize=norm)
    if not ok:
        return Outcome([exc_violation(comp, r, trig, "call")], False, labels)
    r = np.asarray(r)
    viol = []
    if r.shape != (A, K, K):
        viol.append(Violation(comp, "bad_shape", trig,
                              f"shape {r.shape} want {(A, K, K)}"))
        return Outcome(viol, False, labels)
    if norm is None:
        den = np.ones_like(C)
    elif norm == "true":
        den = np.broadcast_to(C.sum(axis=2, keepdims=True), C.shape)
    elif norm == "pred":
        den = np.broadcast_to(C.sum(axis=1, keepdims=True), C.shape)
    else:
        den = np.broadcast_to(C.sum(axis=(1, 2), keepdims=True), C.shape)
    defined = den > 0
    want = np.where(defined, C / np.where(defined, den, 1.0), np.nan)
    labels.append(f"zero_normaliser={bool((~defined).any())}")
    labels.append(f"silent_annotator={bool((C.sum(axis=(1, 2)) == 0).any())}")
    if not np.allclose(r[defined], want[defined], **DIFF):
        if norm is None and not r.any():
            kind = "all_zero_result"
        else:
            kind = "count_mismatch"
        viol.append(Violation(comp, kind, trig,
                              f"got {r.tolist()} want {want.tolist()} "
                              f"(nan = not defined; classes {classes})"))
    und = r[~defined]
    if und.size and not (np.all(np.isfinite(und)) and np.all(und >= 0)
                         and np.all(und <= 1)):
        viol.append(Violation(comp, "undefined_entry_not_in_[0,1]", trig,
                              f"entries with zero normaliser: "
                              f"{und.tolist()}"))
    return Outcome(viol, nontrivial, labels)


def run_case(case):
    if case["fn"] == "vote_vectors":
        return _check_vote_vectors(case)
    if case["fn"] == "majority_vote":
        return _check_majority_vote(case)
    return _check_confusion(case)
