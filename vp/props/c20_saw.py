"""C20, SingleAnnotatorWrapper part: samples are chosen in the order the
wrapped strategy ranks them."""
import numpy as np
from hypothesis import strategies as st

from .. import common
from ..common import Outcome, Violation, guarded
from . import c07, ma_util


@st.composite
def _case(draw):
    case = draw(c07._case(force_comp="SAW", force_klass="regular"))
    case["kind"] = "saw"
    return case


def strategies(tier):
    return [_case()]


def run_case(case):
    comp = "SingleAnnotatorWrapper"
    inner_name = case["inner"]
    classes = list(range(case["n_classes"]))
    X, y, cand_arg, annot_arg, AV, sel_rows = ma_util.args_of(case)
    labels = [f"component={comp}[{inner_name}]",
              f"form={case['cand_mode']}/{case['annot_mode']}"]
    n_avail = int(AV.sum())
    if n_avail == 0 or any(not AV[r].any() for r in sel_rows):
        return Outcome([], False, labels + ["not_regular"])
    y_agg, tie = ma_util.majority_reference(y, case["n_classes"])
    qs, kw = c07._build(case, classes)
    bs = case["batch_size"]
    if not isinstance(bs, int):
        return Outcome([], False, labels + ["adaptive_batch"])
    ok, r = guarded(qs.query, X.copy(), y.copy(), candidates=cand_arg,
                    annotators=annot_arg, batch_size=bs,
                    return_utilities=False, **kw)
    if not ok:
        return Outcome([], False, labels + ["wrapper_raised"])  # C07
    pairs = np.asarray(r)
    if pairs.ndim != 2 or pairs.shape[1] != 2 or len(pairs) == 0:
        return Outcome([], False, labels + ["malformed"])  # C07
    order = []
    for s in pairs[:, 0].tolist():
        if s not in order:
            order.append(int(s))
    if tie:
        return Outcome([], False, labels + ["vote_tie_excluded"])
    # the wrapped strategy on the aggregated labels
    inner2, kw2 = c07._build(case, classes)
    inner = inner2.strategy
    ikw = {k: v for k, v in kw2.items()
           if k not in ("n_annotators_per_sample", "A_perf")}
    cm, am = case["cand_mode"], case["annot_mode"]
    if cm == "feat":
        cand_sq = cand_arg
        n_sel = len(cand_arg)
    elif cm == "idx":
        cand_sq = np.unique(cand_arg)
        n_sel = len(cand_sq)
    elif am == "none":
        cand_sq = np.flatnonzero(np.isnan(y).any(axis=1))
        n_sel = len(cand_sq)
    else:
        cand_sq = np.arange(len(X))
        n_sel = len(X)
    bs_sq = min(bs, n_sel)
    ok, ri = guarded(inner.query, X.copy(), y_agg.copy(),
                     candidates=cand_sq, batch_size=bs_sq,
                     return_utilities=False, **ikw)
    if not ok:
        return Outcome([], False, labels + ["inner_raised"])
    expected = [int(i) for i in np.asarray(ri).reshape(-1)]
    viol = []
    trig = f"form={cm}/{am}"
    if order != expected[:len(order)]:
        viol.append(Violation(
            comp, "sample_order_differs_from_inner_ranking",
            f"inner={inner_name}&{trig}",
            f"wrapper sample order {order}, inner selection {expected}"))
    nontrivial = bs >= 2 and len(order) >= 2
    labels.append(f"distinct_samples={'1' if len(order) == 1 else '2+'}")
    return Outcome(viol, nontrivial, labels)
