"""C08 - a sample's utility does not depend on how candidates are addressed."""
import copy

import numpy as np
from hypothesis import strategies as st

from .. import gen, poolreg, poolrun
from ..common import (Outcome, Violation, exc_violation, guarded, arr_close,
                      DIFF)

PROPERTY_ID = "C08"
TECHNIQUE = ("Metamorphic relations over Hypothesis-generated pool queries: "
             "representation equivalence (None / unlabeled indices / feature "
             "rows), restriction to a candidate subset, and row permutation "
             "of (X, y); first-step utilities compared with tolerance, "
             "selections when the maximum is unique")
RULE = (
    "Cases: relation in {R1 representation, R2 restriction, R3 permutation} "
    "x registry entry (R1: all; R2/R3: the sample-wise scoring list of "
    "DESIGN 4/C08) x data set x label pattern x seed; R2 draws a proper "
    "subset of the unlabeled samples that avoids the first unlabeled index "
    "with high probability, R3 an arbitrary row permutation. Distinct = case "
    "hash. Non-trivial = (R1) at least 2 candidates and at least one "
    "labeled sample; (R2) proper subset not containing the first unlabeled "
    "sample; (R3) the permutation moves an unlabeled sample.")
ASSUMPTIONS = [
    "models are deterministic given their int random_state and invariant to "
    "row order up to rounding (ParzenWindowClassifier, GaussianNB, "
    "NICKernelRegressor, LinearRegression); tree/forest based models are "
    "not used for R3",
    "feature-row equivalence (R1) is asserted for the strategies that score "
    "a sample from (sample, model) only; for the others R1 compares None "
    "with the unlabeled index set",
    "utilities of two different computations are compared with rtol=1e-6, "
    "atol=1e-8; selections only if the maximum is unique by > 1e-6",
]
PROFILE = {
    "quick": dict(examples=2000, shards=16, budget_s=80),
    "thorough": dict(examples=18000, shards=16, budget_s=1100),
}

# R2 (restriction) and R3 (permutation) lists, fixed from the code
R2_FULL = [e["name"] for e in poolreg.POOL_ENTRIES
           if e["sw"] in ("full", "row0", "r")]
R3_LIST = [e["name"] for e in poolreg.POOL_ENTRIES
           if e["sw"] in ("full", "row0")
           and e["name"] not in ("QBC[KL,rf]",)]
R1_LIST = [e["name"] for e in poolreg.POOL_ENTRIES]
FEAT_EQUIV = {e["name"] for e in poolreg.POOL_ENTRIES if e["feat"]}
MODEL_OVERRIDE = {"GreedySamplingTarget[GSy]": "nic"}
# R3 only: a committee member that is a decision tree is not invariant under
# row permutations (scikit-learn breaks exactly tied splits by summation
# order; seen as a false alarm of this check, DESIGN section 10)
MODEL_OVERRIDE_R3 = {"QBC[regression]": "reg_list_no_tree"}
# strategies whose first-step utilities are random by design
RANDOM_UTILS = {"RandomSampling"}
# utilities obtained by a bounded scalar optimiser (scipy minimize_scalar,
# xatol ~1e-5): two runs on re-ordered / restricted input agree only up to
# the optimiser's tolerance
TOL = {"EpistemicUS[pwc]": dict(rtol=1e-4, atol=1e-6),
       "EpistemicUS[pwc,precompute]": dict(rtol=1e-4, atol=1e-6),
       "EpistemicUS[lr]": dict(rtol=1e-3, atol=1e-5),
       # Euclidean distances via the dot-product expansion carry an
       # absolute rounding error of about sqrt(eps) * |x| (1e-8 .. 1e-7)
       "GreedySamplingX": dict(rtol=1e-6, atol=1e-6),
       "GreedySamplingTarget[GSi]": dict(rtol=1e-6, atol=1e-6),
       "GreedySamplingTarget[GSy]": dict(rtol=1e-6, atol=1e-6),
       "CoreSet": dict(rtol=1e-6, atol=1e-6)}
# nearest-neighbour based scores break exact distance ties by row order
KNN_TIE_SENSITIVE = {"ContrastiveAL"}


def _tol(comp):
    return TOL.get(comp, DIFF)


def _has_distance_ties(X):
    A = np.array(X, dtype=float)
    D = np.sqrt(((A[:, None, :] - A[None, :, :]) ** 2).sum(-1))
    for i in range(len(A)):
        row = np.sort(np.delete(D[i], i))
        if len(row) > 1 and np.any(np.diff(row) < 1e-9):
            return True
    return False


def _weighted(names):
    out = []
    for n in names:
        out += [n] * max(1, int(round(poolreg.BY_NAME[n]["weight"] * 10)))
    return out


@st.composite
def _case(draw, tier):
    rel = draw(st.sampled_from(["R1", "R2", "R2", "R3", "R3"]))
    names = {"R1": R1_LIST, "R2": R2_FULL, "R3": R3_LIST}[rel]
    name = draw(st.sampled_from(_weighted(names)))
    # R2 uses batch_size=1: a restricted candidate set clips larger batch
    # sizes, and strategies such as TypiClust derive the number of clusters
    # from the (clipped) batch size
    case = draw(gen.pool_case([name], force_cand="none",
                              batch_sizes=[1] if rel == "R2" else [1, 2],
                              min_unlabeled=2 if rel == "R2" else 1))
    case["relation"] = rel
    if name in MODEL_OVERRIDE:
        case["opts"]["model_key"] = MODEL_OVERRIDE[name]
    if rel == "R3" and name in MODEL_OVERRIDE_R3:
        case["opts"]["model_key"] = MODEL_OVERRIDE_R3[name]
    case["opts"].pop("sample_weight", None)
    n = len(case["yid"])
    unl = [i for i in range(n) if case["yid"][i] is None]
    if rel == "R2":
        k = draw(st.integers(1, max(1, len(unl) - 1)))
        pool = unl[1:] if draw(st.integers(0, 3)) > 0 and len(unl) > 1 \
            else unl
        perm = draw(st.permutations(pool))
        case["subset"] = sorted(perm[:min(k, len(pool))])
    if rel == "R3":
        case["perm"] = list(draw(st.permutations(list(range(n)))))
    return case


def case_strategy(tier, shard=0, nshards=1):
    return _case(tier)


def _query(case, cand, X=None, yid=None):
    c = copy.deepcopy(case)
    c["cand"] = cand
    if X is not None:
        c["X"], c["yid"] = X, yid
    ok, res, _ = poolrun.run_query(c, True)
    return ok, res


class _Empty(Exception):
    pass


def _first_row(res):
    q, u = res
    q = np.asarray(q).reshape(-1)
    u = np.asarray(u, dtype=float)
    if len(q) == 0 or u.ndim != 2 or len(u) == 0:
        raise _Empty()
    return int(q[0]), u[0]


TIE_SENSITIVE = {"QBC[vote_entropy]", "QBC[variation_ratios]"}


def _votes_depend_on_ties(case):
    """vote-based committee scores use the members' predict, which breaks
    probability ties at random: where a member has a tied maximal class
    probability at some unlabeled sample the score of that sample is a
    random variable and the relations R2/R3 are not claimed."""
    data = poolreg.build_data(case)
    ent = poolreg.BY_NAME[case["entry"]]
    ens = poolreg.make_ensemble(ent["model"][1], data["classes"],
                                data["missing"], case.get("opts", {}))
    unl = [i for i, v in enumerate(case["yid"]) if v is None]
    for m in ens:
        ok, P = guarded(lambda: m.fit(data["X"], data["y"]).predict_proba(
            data["X"][unl]))
        if not ok:
            return True
        P = np.asarray(P)
        top = np.sort(P, axis=1)
        if P.shape[1] >= 2 and np.any(top[:, -1] - top[:, -2] < 1e-9):
            return True
    return False


def _unique_max(row):
    vals = row[~np.isnan(row)]
    if len(vals) == 0:
        return False
    if len(vals) == 1:
        return True
    s = np.sort(vals)
    return bool(np.isfinite(s[-1]) and s[-1] - s[-2] > 1e-6 * max(
        1.0, abs(s[-1])))


def run_case(case):
    comp = case["entry"]
    rel = case["relation"]
    yid = case["yid"]
    n = len(yid)
    unl = [i for i in range(n) if yid[i] is None]
    nlab = n - len(unl)
    labels = [f"component={comp}", f"relation={rel}",
              f"cold_start={nlab == 0}"]
    viol = []
    try:
        return _run(case, comp, rel, yid, n, unl, nlab, labels, viol)
    except _Empty:
        # fewer indices than requested is C01's business
        return Outcome([], False, labels + ["empty_result"])


def _run(case, comp, rel, yid, n, unl, nlab, labels, viol):
    ok0, r0 = _query(case, {"mode": "none"})
    if not ok0:
        return Outcome([], False, labels + ["base_query_raised"])
    q0, u0 = _first_row(r0)
    if comp in TIE_SENSITIVE and rel in ("R2", "R3") and \
            _votes_depend_on_ties(case):
        return Outcome([], False, labels + ["skipped_tie_dependent_votes"])
    if comp in KNN_TIE_SENSITIVE and rel == "R3" and \
            _has_distance_ties(case["X"]):
        return Outcome([], False, labels + ["skipped_knn_distance_ties"])
    rand_utils = comp in RANDOM_UTILS
    if rel == "R1":
        ok1, r1 = _query(case, {"mode": "idx", "value": unl})
        if not ok1:
            viol.append(exc_violation(comp, r1, "R1&cand=unlabeled_indices",
                                      "query"))
            return Outcome(viol, False, labels)
        q1, u1 = _first_row(r1)
        if not rand_utils and not arr_close(u0, u1, **_tol(comp)):
            viol.append(Violation(comp, "utilities_differ",
                                  "R1&none_vs_unlabeled_indices",
                                  f"{u0.tolist()} vs {u1.tolist()}"))
        elif _unique_max(u0) and q0 != q1 and not rand_utils:
            viol.append(Violation(comp, "selection_differs",
                                  "R1&none_vs_unlabeled_indices",
                                  f"{q0} vs {q1}"))
        if comp in FEAT_EQUIV:
            rows = [list(case["X"][i]) for i in unl]
            ok2, r2 = _query(case, {"mode": "feat", "value": rows})
            if not ok2:
                viol.append(exc_violation(comp, r2, "R1&cand=feature_rows",
                                          "query"))
            else:
                q2, u2 = _first_row(r2)
                if not rand_utils and not arr_close(u0[unl], u2, **_tol(comp)):
                    viol.append(Violation(
                        comp, "utilities_differ", "R1&none_vs_feature_rows",
                        f"{u0[unl].tolist()} vs {u2.tolist()}"))
                elif (_unique_max(u0) and unl.index(q0) != q2
                      and not rand_utils):
                    viol.append(Violation(comp, "selection_differs",
                                          "R1&none_vs_feature_rows",
                                          f"{q0} vs row {q2}"))
            labels.append("feat_equiv=checked")
        nontrivial = len(unl) >= 2 and nlab >= 1
        return Outcome(viol, nontrivial, labels)
    if rel == "R2":
        S = case["subset"]
        ok1, r1 = _query(case, {"mode": "idx", "value": S})
        if not ok1:
            viol.append(exc_violation(comp, r1, "R2&cand=subset", "query"))
            return Outcome(viol, False, labels)
        q1, u1 = _first_row(r1)
        first_in = unl[0] in S
        trig = f"R2&subset_contains_first_unlabeled={first_in}"
        if not rand_utils and not arr_close(u0[S], u1[S], **_tol(comp)):
            viol.append(Violation(comp, "utilities_differ", trig,
                                  f"subset {S}: {u0[S].tolist()} vs "
                                  f"{u1[S].tolist()}"))
        else:
            others = [i for i in range(n) if i not in S]
            if not np.all(np.isnan(u1[others])):
                viol.append(Violation(comp, "number_outside_subset", trig,
                                      f"{u1.tolist()}"))
        labels.append(f"first_unlabeled_in_subset={first_in}")
        nontrivial = (len(S) < len(unl)) and not first_in
        return Outcome(viol, nontrivial, labels)
    # R3 permutation
    perm = case["perm"]
    Xp = [case["X"][i] for i in perm]
    yp = [yid[i] for i in perm]
    ok1, r1 = _query(case, {"mode": "none"}, X=Xp, yid=yp)
    if not ok1:
        viol.append(exc_violation(comp, r1, "R3&permuted_rows", "query"))
        return Outcome(viol, False, labels)
    q1, u1 = _first_row(r1)
    # u1[j] belongs to original row perm[j]
    back = np.full(n, np.nan)
    back[np.array(perm)] = u1
    if not rand_utils and not arr_close(u0, back, **_tol(comp)):
        viol.append(Violation(comp, "utilities_differ", "R3&permuted_rows",
                              f"{u0.tolist()} vs {back.tolist()}"))
    elif _unique_max(u0) and perm[q1] != q0 and not rand_utils:
        viol.append(Violation(comp, "selection_differs", "R3&permuted_rows",
                              f"{q0} vs {perm[q1]}"))
    moved = any(perm[j] != j and yid[perm[j]] is None for j in range(n))
    labels.append(f"moves_unlabeled={moved}")
    return Outcome(viol, moved and len(unl) >= 1, labels)
