"""C01 - pool query returns a valid batch: right size, distinct, only
candidates."""
import math
from fractions import Fraction

import numpy as np
from hypothesis import strategies as st

from .. import gen, poolreg, poolrun
from ..common import Outcome, Violation, exc_violation

PROPERTY_ID = "C01"
TECHNIQUE = ("Hypothesis-generated (strategy config x data set x candidate "
             "mode x batch size x seed) cases against a validity predicate "
             "on the returned indices (length, 1-D integer, distinct, subset "
             "of the reference candidate set, 20 s termination bound)")
RULE = (
    "Cases: registry entry (every class exported by skactiveml.pool x "
    "methods/flags, wrappers included) x data set n in [2,12] (continuous / "
    "lattice / constant column / all rows equal) x label pattern with "
    "nlab in {0,1,2,n/2,n-2,n-1} x candidates (None / unlabeled index subset "
    "/ arbitrary index subset for sample-wise scorers / feature rows) x "
    "batch_size in {1,2,3,ncand,ncand+1,ncand+5} x seed. Distinct = case "
    "hash. Non-trivial = at least 2 candidates and (batch_size >= 2 or cold "
    "start or duplicated candidate rows or batch_size > n_candidates).")
RULE += (" Further generated dimensions (added while closing seeded "
         "changes): " + 'alternative constructor configurations; unsorted / repeated index candidates; list and int-typed containers; large-scale sample weights; n_jobs incl. the default -1; GaussianNB zero-variance region excluded by construction (counted)' + ".")
ASSUMPTIONS = [
    "reference candidate set is computed from the case (None entries of yid) "
    "without using skactiveml",
    "strategies with enforce_mapping=True are never given feature-row "
    "candidates; non sample-wise scorers only get unlabeled index subsets",
    "ParallelUtilityEstimationWrapper only supports batch_size=1 (documented)",
    "a Python list of numpy integers is accepted as the returned array",
    "termination bound 20 s per call (>= 500x the typical cost)",
]
PROFILE = {
    "quick": dict(examples=3500, shards=16, budget_s=80),
    "thorough": dict(examples=40000, shards=16, budget_s=1100),
}

poolreg.check_registry_complete()


def all_names():
    names = []
    for e in poolreg.POOL_ENTRIES:
        names += [e["name"]] * max(1, int(round(e["weight"] * 10)))
    for e in poolreg.WRAPPER_ENTRIES:
        names += [e["name"]] * 6
    return names


@st.composite
def _case(draw, tier):
    name = draw(st.sampled_from(all_names()))
    kw = {}
    if name.startswith("Parallel"):
        kw["batch_sizes"] = [1]
    case = draw(gen.pool_case([name], vary_model=True, use_alt=True, **kw))
    case["return_utilities"] = draw(st.booleans())
    return case


def case_strategy(tier, shard=0, nshards=1):
    return _case(tier)


def subsample_sizes(case):
    e = poolreg.entry_of(case["entry"])
    _, cset, _ = poolrun.expected_k(case)
    ncand = len(cset)
    mc = e["init"]["max_candidates"]
    if mc == "$int":
        return {min(int(case["opts"]["max_candidates_int"]), ncand)}
    f = float(case["opts"]["max_candidates_float"])
    return {min(math.ceil(ncand * f), ncand),
            min(math.ceil(Fraction(str(f)) * ncand), ncand)}


def tie_info(case):
    """'tie' if some utility row of an identically seeded second run has a
    tied maximum (or could not be computed), else 'unique_max'."""
    ok, res, _ = poolrun.run_query(case, True)
    if not ok:
        return "utilities_unavailable"
    try:
        u = np.asarray(res[1], dtype=float)
        for row in u.reshape(len(u), -1):
            if np.all(np.isnan(row)):
                continue
            if np.sum(row == np.nanmax(row)) >= 2:
                return "tied_row_max"
    except Exception:
        return "utilities_unavailable"
    return "unique_row_max"


def run_case(case):
    comp = case["entry"]
    trig = poolrun.input_class(case)
    k, cset, _ = poolrun.expected_k(case)
    ncand = len(cset)
    labels = [f"component={comp}", f"cand={case['meta']['cand_mode']}",
              f"regime={case['meta']['regime']}",
              f"bs_vs_ncand={'gt' if case['batch_size'] > ncand else 'le'}",
              f"input={trig}", f"ru={case['return_utilities']}"]
    nontrivial = ncand >= 2 and (
        case["batch_size"] >= 2 or "cold_start" in trig
        or "dup_candidates" in trig)
    ok, res, ctx = poolrun.run_query(case, case["return_utilities"])
    if not ok:
        return Outcome([exc_violation(
            comp, res, poolrun.exc_trigger(case), "query")],
            nontrivial, labels)
    q = res[0] if case["return_utilities"] else res
    k_exp = None
    if comp.startswith("SubSampling"):
        sizes = subsample_sizes(case)
        try:
            qlen = len(np.asarray(q).reshape(-1))
        except Exception:
            qlen = -1
        ks = {min(case["batch_size"], s) for s in sizes}
        k_exp = qlen if qlen in ks else min(ks)
    viol, qa = poolrun.check_indices(comp, q, case, trig, k_expected=k_exp)
    out = []
    for v in viol:
        if v.kind == "duplicate_index":
            rc = poolrun.root_cause(case)
            v = Violation(comp, v.kind, rc if rc else tie_info(case),
                          v.detail)
        out.append(v)
    return Outcome(out, nontrivial, labels)
