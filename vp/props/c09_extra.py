"""C09 extras: classifier fit/predict and stream strategies under re-encoded
labels (class renaming + missing-label sentinel)."""
import numpy as np
from hypothesis import strategies as st

from .. import poolreg, streamreg, gen
from ..common import (Outcome, Violation, exc_violation, guarded,
                      arr_equal_exact, arr_close, DIFF, quiet, time_limit)

CLF_KEYS = ["pwc", "pwc_default", "gnb", "lr", "tree_clf", "mmc"]
ENCS = ["float10_nan", "int_m1", "int_99", "obj_none", "str_zz", "str_empty"]
CLF_ENCS = ENCS + ["objnum_none", "str_long", "str_grow"]
STREAM_NAMES = ["FixedUncertainty", "VariableUncertainty", "Split",
                "RandomVariableUncertainty", "StreamProbabilisticAL",
                "StreamDensityBasedAL", "CognitiveDualQueryStrategyFixUn",
                "CognitiveDualQueryStrategyVarUn"]


def _enc_class(enc):
    from . import c09
    return c09.enc_class(enc)


@st.composite
def _clf_case(draw):
    key = draw(st.sampled_from(CLF_KEYS))
    K = draw(st.sampled_from([2, 3]))
    n = draw(st.integers(3 if key == "mmc" else 1, 10))
    d = draw(st.integers(1, 2))
    X, _ = draw(gen.feature_matrix(max(n, 2), d))
    yid, _ = draw(gen.label_pattern(len(X), K, "clf", max_labeled=len(X)))
    Xq = [[float(draw(st.integers(-2, 2))) for _ in range(d)]
          for _ in range(draw(st.integers(1, 5)))] + [list(r) for r in X[:2]]
    cost = draw(st.booleans())
    sw = None
    if key in ("pwc", "gnb", "lr", "tree_clf") and draw(st.booleans()):
        sw = [round(draw(st.floats(0.2, 2.0)), 2) for _ in X]
    return dict(kind="clf", clf=key, K=K, X=X, yid=yid, Xq=Xq, cost=cost,
                sample_weight=sw, enc2=draw(st.sampled_from(CLF_ENCS)),
                seed=draw(st.integers(0, 2**31 - 1)))


def _clf_once(case, enc):
    y, classes, missing = poolreg.encode_labels(case["yid"], enc, case["K"])
    clf = poolreg.make_clf(case["clf"], classes, missing, {},
                           random_state=case["seed"])
    if case["cost"]:
        clf.set_params(cost_matrix=np.array(
            poolreg.CM2 if case["K"] == 2 else poolreg.CM3))
    X = np.array(case["X"], dtype=float)
    Xq = np.array(case["Xq"], dtype=float)
    np.random.seed(0)
    if case["sample_weight"] is not None:
        clf.fit(X, y, np.array(case["sample_weight"], dtype=float))
    else:
        clf.fit(X, y)
    P = np.asarray(clf.predict_proba(Xq), dtype=float)
    pred = clf.predict(Xq)
    labels = poolreg.ENCODINGS[enc][0]
    ids = [labels.index(v.item() if hasattr(v, "item") else v)
           if (v.item() if hasattr(v, "item") else v) in labels else -1
           for v in np.asarray(pred).ravel()]
    cls_ids = [labels.index(c.item() if hasattr(c, "item") else c)
               for c in clf.classes_]
    return P, ids, cls_ids


def _run_clf(case):
    comp = f"clf[{case['clf']}]"
    nlab = sum(1 for v in case["yid"] if v is not None)
    nunl = len(case["yid"]) - nlab
    trig = _enc_class(case["enc2"])
    labels = [f"component={comp}", "kind=clf", f"enc={case['enc2']}",
              f"cost={case['cost']}"]
    ok1, r1 = guarded(_clf_once, case, "float_nan")
    if not ok1:
        return Outcome([], False, labels + ["base_fit_raised"])
    ok2, r2 = guarded(_clf_once, case, case["enc2"])
    nontrivial = nlab >= 1 and nunl >= 1
    if not ok2:
        return Outcome([exc_violation(comp, r2, trig, "re-encoded fit")],
                       nontrivial, labels)
    viol = []
    P1, y1, c1 = r1
    P2, y2, c2 = r2
    if c1 != c2:
        viol.append(Violation(comp, "classes_order_differs", trig,
                              f"{c1} vs {c2}"))
    elif not arr_close(P1, P2, **DIFF):
        viol.append(Violation(comp, "predict_proba_differs", trig,
                              f"{P1.tolist()} vs {P2.tolist()}"))
    elif y1 != y2:
        viol.append(Violation(comp, "predict_not_reencoded_original", trig,
                              f"class ids {y1} vs {y2}"))
    return Outcome(viol, nontrivial, labels)


# ------------------------------------------------------------- stream ----
@st.composite
def _stream_case(draw):
    name = draw(st.sampled_from(STREAM_NAMES))
    kind, name, cfg, classes = draw(streamreg.component(
        kinds=("strategy",), names=[name]))
    K = len(classes)
    d = draw(st.integers(1, 2))
    sizes = draw(st.lists(st.integers(1, 3), min_size=2, max_size=8))
    if streamreg.STRATEGIES[name].get("cognitive"):
        sizes = [1] * len(sizes)
    chunks = [draw(streamreg.rows("lattice", d, s, s)) for s in sizes]
    n = draw(st.integers(2, 8))
    X, _ = draw(gen.feature_matrix(n, d, regime="lattice"))
    yid, _ = draw(gen.label_pattern(n, K, "clf", max_labeled=n))
    return dict(kind="stream", name=name, config=cfg, K=K, chunks=chunks,
                X=X, yid=yid, enc2=draw(st.sampled_from(ENCS)))


def _stream_once(case, enc):
    name = case["name"]
    y, classes, missing = poolreg.encode_labels(case["yid"], enc, case["K"])
    cfg = dict(case["config"])
    if "classes" in cfg:
        cfg["classes"] = list(classes)
    if cfg.get("bm") and "classes" in cfg["bm"]["config"]:
        cfg["bm"] = {"name": cfg["bm"]["name"],
                     "config": dict(cfg["bm"]["config"],
                                    classes=list(classes))}
    obj = streamreg.build("strategy", name, cfg)
    clf = poolreg.make_clf("pwc", classes, missing, {"gamma": 1.0})
    X = np.array(case["X"], dtype=float)
    np.random.seed(0)
    outs = []
    for ch in case["chunks"]:
        chunk = np.array(ch, dtype=float)
        q, u = streamreg.call_query("strategy", name, obj, chunk, clf=clf,
                                    X=X, y=y, fit_clf=True,
                                    return_utilities=True)
        outs.append((np.asarray(q).tolist(), np.asarray(u, dtype=float)))
        streamreg.call_update("strategy", name, obj, chunk, q, utilities=u)
    return outs


def _run_stream(case):
    comp = streamreg.component_label("strategy", case["name"],
                                     case["config"])
    trig = _enc_class(case["enc2"])
    labels = [f"component={comp}", "kind=stream", f"enc={case['enc2']}"]
    nlab = sum(1 for v in case["yid"] if v is not None)
    res = []
    for enc in ("float_nan", case["enc2"]):
        try:
            with quiet(), time_limit():
                res.append(_stream_once(case, enc))
        except Exception as e:
            res.append(e)
    a, b = res
    if isinstance(a, Exception):
        return Outcome([], False, labels + ["base_sequence_raised"])
    if isinstance(b, Exception):
        return Outcome([exc_violation(comp, b, trig, "re-encoded sequence")],
                       nlab >= 1, labels)
    viol = []
    for i, ((q1, u1), (q2, u2)) in enumerate(zip(a, b)):
        if not arr_close(u1, u2, **DIFF):
            viol.append(Violation(comp, "utilities_differ", trig,
                                  f"step {i}: {u1.tolist()} vs "
                                  f"{u2.tolist()}"))
            break
        if q1 != q2:
            viol.append(Violation(comp, "indices_differ", trig,
                                  f"step {i}: {q1} vs {q2}"))
            break
    return Outcome(viol, nlab >= 1 and nlab < len(case["yid"]), labels)


def strategies(tier):
    from . import ma_extra
    return [ma_extra.enc_strategy(), _clf_case(), _stream_case()]


def run_case(case):
    if case["kind"] == "ma_enc":
        from . import ma_extra
        return ma_extra.run_case(case)
    if case["kind"] == "clf":
        return _run_clf(case)
    return _run_stream(case)
