"""Shared helpers for the multi-annotator parts of C05 and C20 (built on the
C07 generator and builder)."""
import numpy as np

from . import c07


def args_of(case):
    """-> (X, y, cand_arg, annot_arg, AV, sel_rows)"""
    X = np.array(case["X"], dtype=float)
    y = c07._apply_inner_preconditions(case,
                                       np.array(case["y"], dtype=float))
    eff = dict(case)
    eff["y"] = y.tolist()
    AV, sel_rows = c07.availability(eff)
    na = AV.shape[1]
    cm, am = case["cand_mode"], case["annot_mode"]
    if cm == "none":
        cand_arg = None
    elif cm == "idx":
        cand_arg = np.array(case["candidates"], dtype=int)
    else:
        cand_arg = np.array(case["candidates"], dtype=float)
    if am == "none":
        annot_arg = None
    elif am == "idx":
        annot_arg = np.array(case["annotators"], dtype=int)
    else:
        annot_arg = np.array(case["annotators"], dtype=bool).reshape(
            len(sel_rows) if cm != "none" else len(X), na)
    return X, y, cand_arg, annot_arg, AV, sel_rows


def majority_reference(y, n_classes):
    """-> (y_agg with NaN for unlabeled rows, has_tie)"""
    out = np.full(len(y), np.nan)
    tie = False
    for i, row in enumerate(y):
        votes = [int(np.sum(row == c)) for c in range(n_classes)]
        if sum(votes) == 0:
            continue
        m = max(votes)
        if votes.count(m) > 1:
            tie = True
        out[i] = votes.index(m)
    return out, tie
