"""C18 - selection primitives: rand_argmax / rand_argmin / simple_batch."""
import numpy as np
from hypothesis import strategies as st

from ..common import Outcome, Violation, exc_violation, guarded

PROPERTY_ID = "C18"
TECHNIQUE = ("Hypothesis-generated arrays with forced ties/NaN/inf against a "
             "pure-Python reference (validity predicate + tie fairness over a "
             "fixed seed set)")
RULE = (
    "Cases: function in {rand_argmax, rand_argmin, simple_batch(max), "
    "simple_batch(proportional)} x array of 1-3 dims (<=24 elements) drawn "
    "from a small value pool {-inf,-2,-1,0,0.5,1,3,+inf,NaN} (ties by "
    "construction) or arbitrary floats, or (rand_arg*) an integer typed "
    "array (int32, int64 incl. neighbours beyond 2**53, uint8, uint64) "
    "compared exactly x axis x batch_size x seed x memory layout. "
    "Distinct = distinct case hash; non-trivial = at least two tied optima "
    "along the deciding slice, or (simple_batch) batch_size>=2 with at least "
    "one NaN entry or a tie among the selected values.")
ASSUMPTIONS = [
    "all-NaN slices are excluded for rand_argmax/rand_argmin (undefined)",
    "simple_batch rejects infinities with ValueError (check_array contract); "
    "this clean rejection is asserted, not treated as a violation",
    "proportional mode: 1-D non-negative weights; where batch_size exceeds "
    "the number of positive weights numpy's ValueError is accepted (the "
    "batch length and 'never a zero-weight entry' cannot both hold), a "
    "returned zero-weight entry is a violation",
    "tie fairness is checked on the fixed seeds 0..127 for <=4 tied optima",
]
PROFILE = {
    "quick": dict(examples=6000, shards=16, budget_s=60),
    "thorough": dict(examples=60000, shards=16, budget_s=900),
}

POOL = [-2.0, -1.0, 0.0, 0.5, 1.0, 1.0, 3.0, float("nan")]
POOL_INF = POOL + [float("inf"), float("-inf")]
FAIR_SEEDS = range(128)
INT_POOLS = {
    "int64": [-3, -1, 0, 0, 1, 1, 2, 2**53, 2**53 + 1, 2**60, 2**60 + 1,
              -(2**60), -(2**60) - 1, -(2**63), 2**63 - 1],
    "int32": [-3, -1, 0, 0, 1, 1, 2, 2**31 - 1, -(2**31)],
    "uint8": [0, 0, 1, 1, 2, 7, 255],
    "uint64": [0, 0, 1, 2, 2**63, 2**63 + 1, 2**64 - 2, 2**64 - 1],
}


def _values(allow_inf, nonneg=False):
    if nonneg:
        pool = st.sampled_from([0.0, 0.0, 0.5, 1.0, 1.0, 2.0, 3.0,
                                float("nan")])
        # positive weights stay far from the denormal range: p = w / sum(w)
        # must not underflow to 0 (numpy.random.choice precondition)
        free = st.floats(min_value=1e-3, max_value=1e6, allow_nan=False)
    else:
        pool = st.sampled_from(POOL_INF if allow_inf else POOL)
        free = (st.floats(allow_nan=True, allow_infinity=True, width=64)
                if allow_inf else
                st.floats(min_value=-1e9, max_value=1e9, allow_nan=False,
                          width=64))
    return st.one_of(pool, pool, pool, free)


@st.composite
def _array(draw, allow_inf, max_dims=3, nonneg=False):
    ndim = draw(st.integers(1, max_dims))
    if ndim == 1:
        shape = (draw(st.integers(1, 12)),)
    elif ndim == 2:
        shape = (draw(st.integers(1, 5)), draw(st.integers(1, 5)))
    else:
        shape = tuple(draw(st.integers(1, 3)) for _ in range(3))
    n = int(np.prod(shape))
    vals = draw(st.lists(_values(allow_inf, nonneg), min_size=n, max_size=n))
    return np.array(vals, dtype=float).reshape(shape).tolist(), list(shape)


@st.composite
def _case(draw):
    fn = draw(st.sampled_from(["rand_argmax", "rand_argmin", "simple_max",
                               "simple_max", "simple_prop"]))
    seed = draw(st.integers(0, 2**31 - 1))
    if fn in ("rand_argmax", "rand_argmin"):
        a, shape = draw(_array(True))
        axis = draw(st.sampled_from([None] + list(range(len(shape)))
                                    + [-1]))
        as_list = draw(st.booleans())
        case = dict(fn=fn, a=a, axis=axis, seed=seed, as_list=as_list)
        if draw(st.integers(0, 2)) == 0:
            # "all utility arrays": integer typed arrays as well (exact
            # comparisons - neighbours beyond 2**53, unsigned zero/non-zero)
            dt = draw(st.sampled_from(sorted(INT_POOLS)))
            n = int(np.prod(shape))
            vals = draw(st.lists(st.sampled_from(INT_POOLS[dt]), min_size=n,
                                 max_size=n))
            case["a"] = np.array(vals, dtype=object).reshape(shape).tolist()
            case["dtype"] = dt
            if dt == "uint64":
                # numpy turns a Python list mixing 0 and 2**64-1 into
                # float64 before the library sees it: arrays only
                case["as_list"] = False
        return case
    if fn == "simple_max":
        with_inf = draw(st.integers(0, 9)) == 0
        a, shape = draw(_array(with_inf))
        n = int(np.prod(shape))
        if with_inf:
            flat = np.array(a, dtype=float).ravel()
            flat[draw(st.integers(0, n - 1))] = draw(
                st.sampled_from([float("inf"), float("-inf")]))
            a = flat.reshape(shape).tolist()
        bs = draw(st.integers(1, n + 2))
        return dict(fn=fn, a=a, batch_size=bs, seed=seed,
                    return_utilities=draw(st.booleans()),
                    layout=draw(st.sampled_from(["C", "C", "F", "strided"])))
    a, shape = draw(_array(False, max_dims=1, nonneg=True))
    arr = np.array(a, dtype=float)
    npos = int(np.sum(arr > 0))
    if npos == 0:
        a[0] = 1.0
        npos = 1
    bs = draw(st.integers(1, npos))
    n_valid = int(np.sum(~np.isnan(np.array(a, dtype=float))))
    if n_valid > npos and draw(st.integers(0, 4)) == 0:
        # more samples requested than entries of positive weight: the call
        # may be rejected, but must never hand out an entry of zero weight
        bs = draw(st.integers(npos + 1, n_valid + 1))
    return dict(fn=fn, a=a, batch_size=bs, seed=seed,
                return_utilities=draw(st.booleans()))


def case_strategy(tier, shard=0, nshards=1):
    return _case()


# ------------------------------------------------------------- oracle ----
def _check_rand_arg(case):
    from skactiveml.utils import rand_argmax, rand_argmin
    fn = rand_argmax if case["fn"] == "rand_argmax" else rand_argmin
    comp = case["fn"]
    a = np.array(case["a"], dtype=case.get("dtype") or float)
    arg = case["a"] if case.get("as_list") else a.copy()
    axis = case["axis"]
    red = np.nanmax if case["fn"] == "rand_argmax" else np.nanmin
    viol, labels = [], [f"component={comp}", f"ndim={a.ndim}",
                        f"axis={axis}",
                        f"dtype={case.get('dtype') or 'float'}"]
    kw = {} if axis is None else {"axis": axis}
    # reference optimum per slice
    if axis is None:
        if np.all(np.isnan(a)):
            return Outcome([], False, labels + ["all_nan_slice"])
        opt = red(a)
        tied = np.argwhere(a == opt)
        ok, r = guarded(fn, arg, random_state=case["seed"], **kw)
        if not ok:
            return Outcome([exc_violation(comp, r, "valid_input", "call")],
                           False, labels)
        r = np.asarray(r)
        want_shape = (a.ndim,) if a.ndim > 1 else (1,)
        if r.shape != want_shape or r.dtype.kind not in "iu":
            viol.append(Violation(comp, "bad_result_shape", "axis_none",
                                  f"shape {r.shape} dtype {r.dtype}"))
            return Outcome(viol, False, labels)
        pos = tuple(int(x) for x in r) if a.ndim > 1 else (int(r[0]),)
        if not (a[pos] == opt):
            viol.append(Violation(comp, "not_an_optimum", "axis_none",
                                  f"a[{pos}]={a[pos]} optimum={opt}"))
        ok2, r2 = guarded(fn, a.copy(), random_state=case["seed"], **kw)
        if not ok2 or not np.array_equal(np.asarray(r2), r):
            viol.append(Violation(comp, "not_reproducible", "same_seed",
                                  f"{r} vs {r2}"))
        ntied = len(tied)
        nontrivial = ntied >= 2
        labels.append(f"ties={'1' if ntied == 1 else '2-4' if ntied <= 4 else '5+'}")
        if 2 <= ntied <= 4:
            seen = set()
            for s in FAIR_SEEDS:
                rr = np.asarray(fn(a, random_state=s, **kw))
                seen.add(tuple(int(x) for x in rr))
            missing = [tuple(t) for t in tied.tolist()
                       if tuple(t) not in seen]
            extra = [p for p in seen if not (a[p] == opt)]
            if missing:
                viol.append(Violation(
                    comp, "tied_optimum_unreachable", f"ties={ntied}",
                    f"positions {missing} never returned for seeds 0..127"))
            if extra:
                viol.append(Violation(comp, "not_an_optimum", "axis_none",
                                      f"positions {extra} under some seed"))
        return Outcome(viol, nontrivial, labels)
    # axis given
    ax = axis % a.ndim
    moved = np.moveaxis(a, ax, -1)
    valid = ~np.all(np.isnan(moved), axis=-1)
    if not valid.any():
        return Outcome([], False, labels + ["all_nan_slice"])
    ok, r = guarded(fn, arg, random_state=case["seed"], **kw)
    if not ok:
        return Outcome([exc_violation(comp, r, "valid_input", "call")],
                       False, labels)
    r = np.asarray(r)
    want = moved.shape[:-1] if a.ndim > 1 else (1,)
    if r.shape != tuple(want) or r.dtype.kind not in "iu":
        viol.append(Violation(comp, "bad_result_shape", "axis_given",
                              f"shape {r.shape} want {want}"))
        return Outcome(viol, False, labels)
    rr = r.reshape(moved.shape[:-1])
    with np.errstate(all="ignore"):
        import warnings
        with warnings.catch_warnings():
            warnings.simplefilter("ignore")
            opt = red(moved, axis=-1)
    nontrivial = False
    for idx in np.ndindex(*moved.shape[:-1]):
        if not valid[idx]:
            continue
        sl = moved[idx]
        k = int(rr[idx])
        if not (0 <= k < len(sl)) or not (sl[k] == opt[idx]):
            viol.append(Violation(comp, "not_an_optimum", "axis_given",
                                  f"slice {idx}: picked {k} of {sl.tolist()}"))
            break
        if np.sum(sl == opt[idx]) >= 2:
            nontrivial = True
    ok2, r2 = guarded(fn, a.copy(), random_state=case["seed"], **kw)
    if not ok2 or not np.array_equal(np.asarray(r2), r):
        viol.append(Violation(comp, "not_reproducible", "same_seed",
                              f"{r} vs {r2}"))
    # fairness on the first valid slice with 2-4 ties
    for idx in np.ndindex(*moved.shape[:-1]):
        if not valid[idx]:
            continue
        sl = moved[idx]
        t = np.flatnonzero(sl == opt[idx])
        if 2 <= len(t) <= 4:
            seen = set()
            for s in FAIR_SEEDS:
                q = np.asarray(fn(a, random_state=s, **kw))
                seen.add(int(q.reshape(moved.shape[:-1])[idx]))
            missing = [int(x) for x in t if int(x) not in seen]
            if missing:
                viol.append(Violation(
                    comp, "tied_optimum_unreachable", f"ties={len(t)}",
                    f"slice {idx} positions {missing} never returned"))
            break
    labels.append("ties=yes" if nontrivial else "ties=no")
    return Outcome(viol, nontrivial, labels)


def _check_simple_batch(case):
    from skactiveml.utils import simple_batch
    method = "max" if case["fn"] == "simple_max" else "proportional"
    comp = f"simple_batch[{method}]"
    a = np.array(case["a"], dtype=float)
    bs = case["batch_size"]
    labels = [f"component={comp}", f"ndim={a.ndim}"]
    viol = []
    has_inf = bool(np.isinf(a).any())
    def _layout(arr):
        """The same values in another memory layout (callers pass columns,
        transposes and strided slices of larger arrays)."""
        lay = case.get("layout", "C")
        if lay == "F" and arr.ndim >= 2:
            return np.asfortranarray(arr.copy())
        if lay == "strided" or (lay == "F" and arr.ndim == 1):
            big = np.full((2 * arr.shape[0],) + arr.shape[1:], 7.5)
            big[::2] = arr
            return big[::2]
        return arr.copy()

    labels.append(f"layout={case.get('layout', 'C')}")
    ok, r = guarded(simple_batch, _layout(a), random_state=case["seed"],
                    batch_size=bs, return_utilities=True, method=method)
    if has_inf:
        labels.append("infinite_input")
        if ok or not isinstance(r, ValueError):
            viol.append(Violation(comp, "infinity_not_rejected", "inf_input",
                                  f"got {r!r}"))
        return Outcome(viol, False, labels)
    if (not ok and method == "proportional" and isinstance(r, ValueError)
            and min(bs, int(np.sum(~np.isnan(a)))) > int(np.sum(a > 0))):
        # fewer entries of positive weight than requested: "never selects an
        # entry of zero weight" cannot be met together with the batch length,
        # numpy's rejection is accepted
        return Outcome([], False, labels + ["more_than_positive_rejected"])
    if not ok:
        return Outcome([exc_violation(comp, r, "valid_input", "call")],
                       False, labels)
    idx, utils = r
    idx = np.asarray(idx)
    utils = np.asarray(utils)
    n_valid = int(np.sum(~np.isnan(a)))
    k = min(bs, n_valid)
    want_shape = (k,) if a.ndim == 1 else (k, a.ndim)
    if idx.shape != want_shape or idx.dtype.kind not in "iu":
        viol.append(Violation(comp, "bad_result_shape", "indices",
                              f"indices shape {idx.shape} want {want_shape}"))
        return Outcome(viol, False, labels)
    if utils.shape != (k,) + a.shape:
        viol.append(Violation(comp, "bad_result_shape", "utilities",
                              f"utilities shape {utils.shape}"))
        return Outcome(viol, False, labels)
    pos = [tuple(int(x) for x in np.atleast_1d(p)) for p in idx]
    if len(set(pos)) != len(pos):
        viol.append(Violation(comp, "duplicate_position", method,
                              f"{pos}"))
    ref = a.copy()
    picked_vals = []
    tie_among_picks = False
    for i, p in enumerate(pos):
        row = utils[i]
        if not np.array_equal(row, ref, equal_nan=True):
            viol.append(Violation(comp, "row_mismatch", f"step>0={i > 0}",
                                  f"row {i} is not the input with earlier "
                                  f"picks masked"))
            break
        try:
            v = ref[p]
        except IndexError:
            viol.append(Violation(comp, "position_out_of_range", method,
                                  f"{p}"))
            break
        if np.isnan(v):
            viol.append(Violation(comp, "selected_nan_entry", method,
                                  f"step {i} position {p}"))
            break
        if method == "max":
            m = np.nanmax(ref)
            if v != m:
                viol.append(Violation(comp, "not_a_maximum", f"step>0={i > 0}",
                                      f"step {i}: value {v} max {m}"))
                break
            if np.sum(ref == m) >= 2:
                tie_among_picks = True
        else:
            if not v > 0:
                viol.append(Violation(comp, "selected_zero_weight",
                                      "proportional",
                                      f"step {i} position {p} value {v}"))
                break
        picked_vals.append(v)
        ref[p] = np.nan
    if method == "max" and any(
            picked_vals[i] < picked_vals[i + 1]
            for i in range(len(picked_vals) - 1)):
        viol.append(Violation(comp, "increasing_utility_order", "max",
                              f"{picked_vals}"))
    # reproducibility and agreement of the return_utilities=False form
    ok2, r2 = guarded(simple_batch, _layout(a), random_state=case["seed"],
                      batch_size=bs, return_utilities=False, method=method)
    if not ok2 or not np.array_equal(np.asarray(r2), idx):
        viol.append(Violation(comp, "not_reproducible", "same_seed",
                              f"{idx.tolist()} vs {r2!r}"))
    has_nan = bool(np.isnan(a).any())
    nontrivial = k >= 2 and (has_nan or tie_among_picks)
    labels += [f"k={'0' if k == 0 else '1' if k == 1 else '2+'}",
               f"nan={has_nan}", f"bs_clipped={bs > n_valid}",
               f"tie={tie_among_picks}"]
    return Outcome(viol, nontrivial, labels)


def run_case(case):
    if case["fn"] in ("rand_argmax", "rand_argmin"):
        return _check_rand_arg(case)
    return _check_simple_batch(case)


def extra_engines(tier, seed):
    """Thorough tier: the same generator/oracle driven by atheris
    (coverage-guided) - see vp/fuzz_atheris.py."""
    from .. import fuzz_atheris
    return fuzz_atheris.extra(PROPERTY_ID, tier, seed, runs=120000,
                              timeout=900)
