"""C19 - IndexClassifierWrapper: index-based incremental refitting equals
retraining from scratch; the precomputed-kernel speed-up never changes a
prediction.

Model-based stateful test.  A case is a plain dict holding the data set, the
wrapped classifier, the constructor flags, the initial state and a list of
operations (the generator simulates the reference model while it draws the
operations, so only histories a caller may issue are produced; the few
deliberately invalid calls carry an explicit `expect`).  `run_case` replays the
list against the real wrapper(s) and the model without Hypothesis.
"""
import copy

import numpy as np
from hypothesis import strategies as st

from ..common import DIFF, Outcome, Violation, arr_close, exc_violation, \
    guarded

PROPERTY_ID = "C19"
TECHNIQUE = ("Model-based stateful property test: Hypothesis-generated "
             "operation histories on IndexClassifierWrapper against a multiset "
             "reference model (retrain a fresh clone) and a use_speed_up twin")
RULE = (
    "Case = data set (3-12 rows, 1-3 features, continuous/lattice/constant "
    "column, 2-3 classes, NaN or -1 as missing label, optional weights) x "
    "wrapped classifier (ParzenWindowClassifier with rbf/laplacian/polynomial "
    "kernel, optional n_neighbors, class_prior, rarely gamma='mean'; "
    "SklearnClassifier(GaussianNB) = native partial_fit; "
    "SklearnClassifier(DecisionTree) = emulated) x flags (enforce_unique_"
    "samples, ignore_partial_fit, use_speed_up; PWC always runs both speed-up "
    "settings as twins) x initial state (unfitted / prefitted with or without "
    "set_base_clf) x 1-8 operations fit / partial_fit(current|base) with "
    "label and weight overrides, preceded by the precompute calls covering "
    "exactly the kernel blocks needed (split by labeled/unlabeled filters), "
    "each followed by predict_proba/predict/predict_freq on a generated index "
    "list. Distinct = distinct case hash; non-trivial = some partial_fit("
    "use_base_clf=True) issued after the current multiset diverged from the "
    "base, or a label override on an index that is already in the target "
    "multiset.")
ASSUMPTIONS = [
    "order of the training multiset is the documented one (append; with "
    "enforce_unique_samples re-added indices are removed, then appended)",
    "emulated path: sample weights are either always given or never (the "
    "wrapper documents a ValueError otherwise; asserted once as a rejection)",
    "with use_speed_up every kernel block K[train, pred] needed later has "
    "been requested through precompute beforehand (as the EER callers do)",
    "predict is compared exactly only where the decision is not a tie "
    "(PWC: cost margin 1e-6; SklearnClassifier: estimator could be fitted); "
    "otherwise only 'is an optimal / a declared class' is required",
    "n_neighbors: speed-up twin rows whose k-th/(k+1)-th kernel values are "
    "closer than 1e-9 are skipped (the neighbour set is not determined)",
    "rejected calls only need to raise the documented type; state is compared "
    "afterwards only for rejections that happen before any assignment "
    "(NotFittedError / duplicate-index ValueError)",
    "reuse_buffers=True: label/weight arrays handed to an earlier call are "
    "overwritten by the caller once a later fit/partial_fit has completed",
    "features in [-4, 4], weights in [0.1, 5], cost_matrix=None",
]
PROFILE = {
    # ~12-15 cases/s per shard on a free core (sklearn input validation
    # dominates: 3 prediction kinds x (wrapper, twin, fresh reference) after
    # every operation)
    "quick": dict(examples=900, shards=16, budget_s=110),
    "thorough": dict(examples=12000, shards=16, budget_s=1100),
}

KINDS = ["pwc", "gnb", "dt"]


# ------------------------------------------------------------------ model --
class Model:
    """Reference bookkeeping: current / base training multisets as ordered
    lists of (index, label, weight) triples.  `*_init` tells that the model
    (additionally) contains the opaque training set of a prefitted
    classifier handed over in the constructor."""

    def __init__(self, y, w, uniq, native, init_fitted, init_base):
        self.y = list(y)
        self.w = None if w is None else list(w)
        self.uniq = bool(uniq)
        self.native = bool(native)
        self.cur = None
        self.base = None
        self.cur_init = bool(init_fitted)
        self.base_init = bool(init_base)
        self.native_used = False

    # -- state predicates
    def cur_fitted(self):
        return self.cur is not None or self.cur_init

    def base_fitted(self):
        return self.base is not None or self.base_init

    def cur_known(self):
        return self.cur is not None and not self.cur_init

    def base_known(self):
        return self.base is not None and not self.base_init

    def triples(self, idx, y, w):
        yy = [self.y[i] for i in idx] if y is None else list(y)
        if w is not None:
            ww = list(w)
        elif self.w is not None:
            ww = [self.w[i] for i in idx]
        else:
            ww = [None] * len(idx)
        return [(int(i), a, b) for i, a, b in zip(idx, yy, ww)]

    @staticmethod
    def weighted(tr):
        return len(tr) > 0 and tr[0][2] is not None

    def diverged(self):
        return (self.cur != self.base) or (self.cur_init != self.base_init)

    # -- transitions
    def fit(self, idx, y, w, set_base):
        self.cur = self.triples(idx, y, w)
        self.cur_init = False
        if set_base:
            self.base = list(self.cur)
            self.base_init = False

    def partial_fit(self, idx, y, w, use_base, set_base):
        add = self.triples(idx, y, w)
        if use_base:
            start = list(self.base or [])
            init = self.base_init
        else:
            start = list(self.cur or [])
            init = self.cur_init
        if self.uniq and not self.native:
            s = set(int(i) for i in idx)
            start = [t for t in start if t[0] not in s]
        self.cur = start + add
        self.cur_init = init
        if self.native:
            self.native_used = True
        if set_base:
            self.base = list(self.cur)
            self.base_init = self.cur_init


def _is_native(case):
    return case["clf"]["kind"] == "gnb" and not case["ignore_partial_fit"]


def _new_model(case):
    init = case["init"]
    return Model(case["y"], case["w"], case["enforce_unique_samples"],
                 _is_native(case), init is not None,
                 init is not None and init["set_base_clf"])


def _missing(case):
    return float("nan") if case["enc"] == "nan" else -1


def _is_missing(v, case):
    if case["enc"] == "nan":
        return v is None or (isinstance(v, float) and v != v)
    return v == -1


# -------------------------------------------------------------- generator --
def _idx_list(draw, n, lo, hi, unique, prefer=None):
    if prefer:
        elem = st.one_of(st.sampled_from(sorted(prefer)),
                         st.integers(0, n - 1))
    else:
        elem = st.integers(0, n - 1)
    hi = min(hi, n) if unique else hi
    return draw(st.lists(elem, min_size=lo, max_size=max(lo, hi),
                         unique=unique))


def _labels(draw, case, k):
    K = case["n_classes"]
    miss = _missing(case)
    pool = list(range(K)) * 2 + [None]
    out = draw(st.lists(st.sampled_from(pool), min_size=k, max_size=k))
    if case["enc"] == "nan":
        return [miss if v is None else float(v) for v in out]
    return [miss if v is None else int(v) for v in out]


_WEIGHT = st.one_of(st.sampled_from([0.5, 1.0, 2.0, 3.0]),
                    st.integers(100, 5000).map(lambda v: v / 1000.0))


def _weights(draw, k):
    return draw(st.lists(_WEIGHT, min_size=k, max_size=k))


def _cover(draw, case, cov, rows, cols, ops):
    """Emit precompute ops so that cov[r][c] holds for rows x cols."""
    n = len(case["y"])
    rows = sorted(set(rows))
    cols = sorted(set(cols))
    if not rows or not cols:
        return
    if all(cov[r][c] for r in rows for c in cols):
        return
    lab = [not _is_missing(v, case) for v in case["y"]]

    def extras():
        return draw(st.lists(st.integers(0, n - 1), max_size=2))

    def shuffled(v):
        v = list(v)
        return draw(st.permutations(v)) if len(v) > 1 else v

    mode = draw(st.sampled_from(["all", "all", "split_rows", "split_cols"]))
    plans = []
    if mode == "split_rows":
        for name, flag in (("labeled", True), ("unlabeled", False)):
            if any(lab[r] == flag for r in rows):
                plans.append((name, "all"))
    elif mode == "split_cols":
        for name, flag in (("labeled", True), ("unlabeled", False)):
            if any(lab[c] == flag for c in cols):
                plans.append(("all", name))
    else:
        plans.append(("all", "all"))
    for fp, pp in plans:
        idx_fit = shuffled(rows + extras())
        idx_pred = shuffled(cols + extras())
        ops.append(dict(op="precompute", idx_fit=[int(i) for i in idx_fit],
                        idx_pred=[int(i) for i in idx_pred],
                        fit_params=fp, pred_params=pp))
        _apply_cov(cov, lab, idx_fit, idx_pred, fp, pp)


def _apply_cov(cov, lab, idx_fit, idx_pred, fp, pp):
    def sel(idx, p):
        s = set(idx)
        if p == "labeled":
            s = {i for i in s if lab[i]}
        elif p == "unlabeled":
            s = {i for i in s if not lab[i]}
        return s
    R, C = sel(idx_fit, fp), sel(idx_pred, pp)
    if R and C:
        for r in R:
            for c in C:
                cov[r][c] = True


@st.composite
def _case(draw):
    kind = draw(st.sampled_from(["pwc", "pwc", "pwc", "gnb", "gnb", "dt"]))
    n = draw(st.integers(3, 12))
    d = draw(st.integers(1, 3))
    regime = draw(st.sampled_from(["cont", "cont", "lattice", "lattice",
                                   "const_col"]))
    if regime == "cont":
        cell = st.integers(-400, 400).map(lambda v: v / 100.0)
    else:
        cell = st.integers(-2, 2).map(float)
    X = [[draw(cell) for _ in range(d)] for _ in range(n)]
    if regime == "const_col":
        for r in X:
            r[0] = 1.0
    K = draw(st.sampled_from([2, 2, 3]))
    enc = draw(st.sampled_from(["nan", "nan", "int"]))
    case = dict(X=X, n_classes=K, enc=enc)
    rate = draw(st.sampled_from([1, 1, 3, 6]))
    pool = list(range(K)) * 2 + [None] * rate
    raw = draw(st.lists(st.sampled_from(pool), min_size=n, max_size=n))
    miss = _missing(case)
    if enc == "nan":
        case["y"] = [miss if v is None else float(v) for v in raw]
    else:
        case["y"] = [miss if v is None else int(v) for v in raw]
    case["w"] = _weights(draw, n) if draw(st.integers(0, 2)) == 0 else None

    clf = dict(kind=kind)
    if kind == "pwc":
        metric = draw(st.sampled_from(["rbf", "rbf", "rbf", "laplacian",
                                       "polynomial"]))
        clf["metric"] = metric
        if metric == "rbf":
            g = draw(st.sampled_from([None, None, 0.1, 0.5, 1.0, 2.0, 2.0,
                                      "mean"]))
            clf["metric_dict"] = None if g is None else {"gamma": g}
        elif metric == "laplacian":
            g = draw(st.sampled_from([None, 0.5, 1.0]))
            clf["metric_dict"] = None if g is None else {"gamma": g}
        else:
            clf["metric_dict"] = {"degree": 2, "gamma": 0.5, "coef0": 1.0}
        clf["n_neighbors"] = draw(st.sampled_from([None, None, None, 1, 2,
                                                   3]))
        clf["class_prior"] = draw(st.sampled_from([0.0, 0.0, 1.0, 0.5]))
        clf["cost_matrix"] = draw(st.sampled_from([None, None, "asym"]))
    case["clf"] = clf
    uniq = draw(st.booleans())
    case["enforce_unique_samples"] = uniq
    case["ignore_partial_fit"] = draw(st.booleans())
    case["use_speed_up"] = draw(st.booleans())
    case["reuse_buffers"] = draw(st.integers(0, 3)) == 0

    # rare dedicated scenario: base classifier from the constructor, a
    # plain fit, then partial_fit(use_base_clf=True) on the emulated path
    force_r4 = draw(st.integers(0, 29)) == 0
    if force_r4 and kind == "gnb":
        case["ignore_partial_fit"] = True
    # initial state
    if force_r4:
        case["init"] = dict(idx=_idx_list(draw, n, 1, n, unique=False),
                            set_base_clf=True)
    elif draw(st.integers(0, 3)) == 0:
        idx0 = _idx_list(draw, n, 1, n, unique=False)
        case["init"] = dict(idx=idx0, set_base_clf=draw(st.booleans()))
    else:
        case["init"] = None
    case["init_pred"] = _idx_list(draw, n, 1, 4, unique=False)
    if case["init"] is None and draw(st.integers(0, 24)) == 0:
        # constructor rejection: set_base_clf=True with an unfitted clf
        case["ctor_set_base_unfitted"] = True
        case["ops"] = []
        return case

    native = _is_native(case)
    model = _new_model(case)
    cov = [[False] * n for _ in range(n)]
    ops = []
    n_ops = draw(st.integers(1, 8))
    # at most one deliberately invalid call, in a quarter of the histories
    rejected_once = draw(st.integers(0, 3)) != 0 and not force_r4
    if force_r4:
        n_ops = max(n_ops, 2)
    for k in range(n_ops):
        choices = ["fit"]
        if native:
            cur_ok, base_ok = model.cur_fitted(), model.base_fitted()
        else:
            cur_ok, base_ok = model.cur_known(), model.base_known()
        if cur_ok:
            choices += ["pfit"] * 3
        if base_ok:
            choices += ["pfit_base"] * 4
        if not rejected_once:
            choices += ["reject"] * max(1, len(choices) // 2)
        if k == 0 and case["init"] is None:
            choices += ["fit"] * 3
        what = draw(st.sampled_from(choices))
        r4_now = (force_r4 and k >= 1 and model.base_init
                  and model.cur_known() and draw(st.booleans()))
        if r4_now:
            what = "reject"
        if what == "reject":
            op = _reject_op(draw, case, model, native, r4_now)
            if op is None:
                what = "fit"
            else:
                rejected_once = True
                op["pred"] = _idx_list(draw, n, 1, 4, unique=False)
                if kind == "pwc" and model.cur_known():
                    _cover(draw, case, cov, [t[0] for t in model.cur],
                           op["pred"], ops)
                ops.append(op)
                if op["terminal"]:
                    break
                continue
        if what == "fit":
            if draw(st.integers(0, 2)) == 0:
                idx = list(range(n))
            else:
                idx = _idx_list(draw, n, 1, n + 2, unique=uniq)
            y = (_labels(draw, case, len(idx))
                 if draw(st.integers(0, 2)) == 0 else None)
            # (a fit starts a new multiset: weights may be given or not)
            w = (_weights(draw, len(idx))
                 if draw(st.integers(0, 2)) == 0 else None)
            # (keep the base of the constructor alive when the history is
            # going to contain the invalid "base from init" call)
            keep_init_base = (model.base_init and not native
                              and not rejected_once)
            op = dict(op="fit", idx=idx, y=y, w=w,
                      set_base=(not keep_init_base) and draw(
                          st.sampled_from([True, True, False])))
            model.fit(idx, y, w, op["set_base"])
        else:
            use_base = what == "pfit_base"
            target = model.base if use_base else model.cur
            present = {t[0] for t in (target or [])}
            idx = _idx_list(draw, n, 1, 3, unique=uniq, prefer=present)
            y = (_labels(draw, case, len(idx))
                 if draw(st.integers(0, 3)) != 0 else None)
            if native or case["w"] is not None:
                w = (_weights(draw, len(idx))
                     if draw(st.integers(0, 2)) == 0 else None)
            else:
                # emulated path: None/given must match the target multiset
                w = (_weights(draw, len(idx))
                     if Model.weighted(target) else None)
            op = dict(op="partial_fit", idx=idx, y=y, w=w,
                      use_base=use_base,
                      set_base=draw(st.sampled_from([False, False, True])))
            model.partial_fit(idx, y, w, use_base, op["set_base"])
        if draw(st.integers(0, 4)) == 0:
            op["pred"] = list(range(n))
        else:
            op["pred"] = _idx_list(draw, n, 1, 4, unique=False)
        if kind == "pwc":
            _cover(draw, case, cov, [t[0] for t in model.cur], op["pred"],
                   ops)
        elif draw(st.integers(0, 9)) == 0:
            # precompute is a validated no-op for other classifiers
            ops.append(dict(op="precompute",
                            idx_fit=_idx_list(draw, n, 1, 3, False),
                            idx_pred=_idx_list(draw, n, 1, 3, False),
                            fit_params="all", pred_params="all"))
        ops.append(op)
    case["ops"] = ops
    return case


def _reject_op(draw, case, model, native, r4=False):
    """A call outside the documented domain, with the documented rejection."""
    n = len(case["y"])
    uniq = case["enforce_unique_samples"]
    cands = []
    if not model.cur_fitted():
        cands.append("pfit_unfitted")
    if not model.base_fitted():
        cands.append("pfit_base_unset")
    if not native:
        if model.cur_init and model.cur is None:
            cands.append("pfit_on_init")
        if model.base_init and model.cur_known():
            cands.append("pfit_base_from_init_after_fit")
        if case["w"] is None and model.cur_known():
            cands.append("weight_mix")
    if uniq and n >= 1:
        cands.append("duplicate_idx")
    if not cands:
        return None
    if "pfit_base_from_init_after_fit" in cands:
        cands += ["pfit_base_from_init_after_fit"] * 3   # rare state
    cls = ("pfit_base_from_init_after_fit" if r4
           else draw(st.sampled_from(sorted(cands))))
    idx = _idx_list(draw, n, 1, 2, unique=uniq)
    y = _labels(draw, case, len(idx))
    op = dict(op="partial_fit", idx=idx, y=y, w=None, use_base=False,
              set_base=False, reject_class=cls, expect="NotFittedError",
              terminal=False)
    if cls == "pfit_base_unset":
        op["use_base"] = True
    elif cls == "pfit_on_init":
        op["use_base"] = bool(model.base_init and draw(st.booleans()))
    elif cls == "pfit_base_from_init_after_fit":
        op["use_base"] = True
        op["terminal"] = True
    elif cls == "weight_mix":
        op["expect"] = "ValueError"
        op["terminal"] = True
        if not Model.weighted(model.cur):
            op["w"] = _weights(draw, len(idx))
        # else: w=None with unweighted wrapper vs weighted current multiset
    elif cls == "duplicate_idx":
        op["expect"] = "ValueError"
        i = draw(st.integers(0, n - 1))
        op["idx"] = [i, i]
        op["y"] = _labels(draw, case, 2)
        if draw(st.booleans()) or not (
                model.cur_fitted() if native else model.cur_known()):
            op["op"] = "fit"
            op.pop("use_base")
    return op


def case_strategy(tier, shard=0, nshards=1):
    return _case()


# ----------------------------------------------------------- live objects --
def _make_clf(case):
    from sklearn.naive_bayes import GaussianNB
    from sklearn.tree import DecisionTreeClassifier
    from skactiveml.classifier import ParzenWindowClassifier, \
        SklearnClassifier
    c = case["clf"]
    classes = list(range(case["n_classes"]))
    ml = _missing(case)
    if c["kind"] == "pwc":
        md = c.get("metric_dict")
        return ParzenWindowClassifier(
            classes=classes, missing_label=ml, metric=c["metric"],
            metric_dict=None if md is None else dict(md),
            n_neighbors=c.get("n_neighbors"),
            class_prior=c.get("class_prior", 0.0),
            cost_matrix=(_cost_matrix(case)
                         if c.get("cost_matrix") == "asym" else None),
            random_state=0)
    if c["kind"] == "gnb":
        est = GaussianNB()
    else:
        est = DecisionTreeClassifier(random_state=0)
    return SklearnClassifier(est, classes=classes, missing_label=ml,
                             random_state=0)


def _cost_matrix(case):
    """Configured cost matrix (classes are 0..K-1, already sorted)."""
    K = case["n_classes"]
    if case["clf"].get("cost_matrix") != "asym":
        return 1.0 - np.eye(K)
    C = np.array([[0.0, 1.0, 2.0, 1.0], [3.0, 0.0, 1.0, 2.0],
                  [1.0, 2.0, 0.0, 3.0], [2.0, 1.0, 1.0, 0.0]])
    return C[:K, :K]


def _yarr(vals, case):
    return np.array(vals, dtype=float if case["enc"] == "nan" else int)


def _component(case):
    k = case["clf"]["kind"]
    if k == "pwc":
        return "IndexClassifierWrapper[PWC]"
    if k == "dt":
        return "IndexClassifierWrapper[DecisionTree,emulated]"
    return ("IndexClassifierWrapper[GaussianNB,native]" if _is_native(case)
            else "IndexClassifierWrapper[GaussianNB,emulated]")


def _gamma_mean(case):
    md = case["clf"].get("metric_dict") or {}
    return md.get("gamma") == "mean"


def _predictions(obj, arg, freq):
    out = {"proba": np.asarray(obj.predict_proba(arg)),
           "predict": np.asarray(obj.predict(arg))}
    if freq:
        out["freq"] = np.asarray(obj.predict_freq(arg))
    return out


class _Ref:
    """Reference classifier(s) for the current state."""

    def __init__(self, case, X, prefit):
        self.case = case
        self.X = X
        self.native = _is_native(case)
        self.cur = copy.deepcopy(prefit) if prefit is not None else None
        self.base = (copy.deepcopy(prefit)
                     if prefit is not None and case["init"]["set_base_clf"]
                     else None)
        self.prefit = prefit

    def _fresh(self, triples):
        from sklearn import clone
        idx = [t[0] for t in triples]
        y = _yarr([t[1] for t in triples], self.case)
        w = (np.array([t[2] for t in triples], dtype=float)
             if Model.weighted(triples) else None)
        return clone(_make_clf(self.case)).fit(self.X[idx], y, w)

    def after_fit(self, model, set_base):
        self.cur = self._fresh(model.cur)
        if set_base:
            self.base = copy.deepcopy(self.cur)

    def after_partial_fit(self, model, add, use_base, set_base):
        if self.native:
            if use_base:
                self.cur = copy.deepcopy(self.base)
            idx = [t[0] for t in add]
            y = _yarr([t[1] for t in add], self.case)
            if Model.weighted(add):
                self.cur.partial_fit(
                    self.X[idx], y,
                    sample_weight=np.array([t[2] for t in add], dtype=float))
            else:
                self.cur.partial_fit(self.X[idx], y)
        else:
            self.cur = self._fresh(model.cur)
        if set_base:
            self.base = copy.deepcopy(self.cur)


def _near_tie_rows(case, X, train_idx, pred):
    """Rows of `pred` whose n_neighbors selection is not determined."""
    k = case["clf"].get("n_neighbors")
    if k is None or len(train_idx) <= k or _gamma_mean(case):
        return set()
    from sklearn.metrics import pairwise_kernels
    md = case["clf"].get("metric_dict") or {}
    Kmat = pairwise_kernels(X[pred], X[train_idx],
                            metric=case["clf"]["metric"], **md)
    bad = set()
    for r in range(len(pred)):
        s = np.sort(Kmat[r])[::-1]
        if abs(s[k - 1] - s[k]) <= 1e-9 * max(1.0, abs(s[k - 1])):
            bad.add(r)
    return bad


def _compare(comp, trig, tag, got, want, case, ref_obj, skip_rows=()):
    """Compare prediction dicts; returns list of violations."""
    out = []
    keep = [r for r in range(len(want["proba"])) if r not in skip_rows]
    if not keep:
        return out
    for key in ("proba", "freq"):
        if key not in want:
            continue
        a, b = np.asarray(got[key]), np.asarray(want[key])
        if a.shape != b.shape or a.dtype.kind not in "fiu":
            out.append(Violation(comp, f"{tag}{key}_shape", trig,
                                 f"shape {a.shape} dtype {a.dtype} vs "
                                 f"reference {b.shape}"))
            continue
        if not arr_close(a[keep], b[keep], **DIFF):
            out.append(Violation(
                comp, f"{tag}{key}_mismatch", trig,
                f"wrapper {np.round(a[keep], 6).tolist()} vs reference "
                f"{np.round(b[keep], 6).tolist()}"))
    a, b = np.asarray(got["predict"]), np.asarray(want["predict"])
    if a.shape != b.shape:
        out.append(Violation(comp, f"{tag}predict_shape", trig,
                             f"shape {a.shape} vs reference {b.shape}"))
        return out
    K = case["n_classes"]
    P = np.asarray(want["proba"], dtype=float)
    for r in keep:
        try:
            lab = float(a[r])
        except (TypeError, ValueError):
            lab = None
        if lab is None or lab != lab or int(lab) != lab \
                or not 0 <= int(lab) < K:
            out.append(Violation(comp, f"{tag}predict_not_a_class", trig,
                                 f"row {r}: {a[r]!r}"))
            break
        if case["clf"]["kind"] == "pwc":
            costs = P[r] @ _cost_matrix(case)
            if np.isnan(costs).any():
                continue
            if costs[int(lab)] > costs.min() + 1e-6:
                out.append(Violation(
                    comp, f"{tag}predict_mismatch", trig,
                    f"row {r}: label {a[r]} has expected cost "
                    f"{costs[int(lab)]:.6g}, optimum {costs.min():.6g} "
                    f"(reference predicts {b[r]})"))
                break
        elif getattr(ref_obj, "is_fitted_", False):
            if lab != float(b[r]):
                out.append(Violation(
                    comp, f"{tag}predict_mismatch", trig,
                    f"row {r}: {a[r]} vs reference {b[r]}"))
                break
    return out


def _scribble(what, b, case):
    """Overwrite a caller-owned buffer in place (every entry changes)."""
    K = case["n_classes"]
    if what == "w":
        b[...] = b * 1000.0
    elif case["enc"] == "nan":
        b[...] = np.where(np.isnan(b), 0.0, (b + 1.0) % K)
    else:
        b[...] = np.where(b == -1, 0, (b + 1) % K)


def _bucket(k):
    return "0" if k == 0 else "1" if k == 1 else "2-3" if k <= 3 else "4+"


# ---------------------------------------------------------------- oracle --
def run_case(case):
    from sklearn.exceptions import NotFittedError
    from skactiveml.pool.utils import IndexClassifierWrapper

    comp = _component(case)
    kind = case["clf"]["kind"]
    native = _is_native(case)
    gm = kind == "pwc" and _gamma_mean(case)
    base_trig = ""
    labels = [f"component={comp}", f"enc={case['enc']}",
              f"unique={case['enforce_unique_samples']}",
              f"weights={'init' if case['w'] is not None else 'none'}",
              f"init={'unfitted' if case['init'] is None else 'prefit+base' if case['init']['set_base_clf'] else 'prefit'}",
              f"reuse_buffers={case['reuse_buffers']}"]
    if kind == "pwc":
        c = case["clf"]
        labels += [f"pwc_metric={c['metric']}",
                   f"pwc_gamma_mean={gm}",
                   f"pwc_n_neighbors={c.get('n_neighbors') is not None}"]
    else:
        labels.append(f"ignore_partial_fit={case['ignore_partial_fit']}")
    viol = []
    X = np.array(case["X"], dtype=float)
    Y = _yarr(case["y"], case)
    Wt = None if case["w"] is None else np.array(case["w"], dtype=float)
    ml = _missing(case)
    freq = kind == "pwc"

    # ---- constructor -------------------------------------------------
    prefit = None
    if case["init"] is not None:
        i0 = case["init"]["idx"]
        ok, prefit = guarded(
            lambda: _make_clf(case).fit(
                X[i0], Y[i0], None if Wt is None else Wt[i0]))
        if not ok:
            return Outcome([exc_violation(comp, prefit, base_trig + "prefit",
                                          "fitting the classifier itself")],
                           False, labels)
    if case.get("ctor_set_base_unfitted"):
        labels.append("reject=ctor_set_base_unfitted")
        ok, r = guarded(IndexClassifierWrapper, _make_clf(case), X, Y, Wt,
                        set_base_clf=True)
        if ok or not isinstance(r, NotFittedError):
            viol.append(Violation(comp, "not_rejected",
                                  "ctor_set_base_unfitted", f"got {r!r}"))
        return Outcome(viol, False, labels)

    variants = ([("plain", False), ("speedup", True)] if kind == "pwc"
                else [("only", bool(case["use_speed_up"]))])
    wrappers = {}
    handed_objs = {}
    for name, su in variants:
        handed = copy.deepcopy(prefit) if prefit is not None \
            else _make_clf(case)
        ok, r = guarded(
            IndexClassifierWrapper, handed, X.copy(), Y.copy(),
            None if Wt is None else Wt.copy(),
            set_base_clf=bool(case["init"] and case["init"]["set_base_clf"]),
            ignore_partial_fit=bool(case["ignore_partial_fit"]),
            enforce_unique_samples=bool(case["enforce_unique_samples"]),
            use_speed_up=su, missing_label=ml)
        if not ok:
            viol.append(exc_violation(comp, r, base_trig + f"ctor|{name}",
                                      "constructor"))
            return Outcome(viol, False, labels)
        wrappers[name] = r
        handed_objs[name] = handed

    model = _new_model(case)
    ref = _Ref(case, X, prefit)
    dead = set()          # wrapper variants that already failed

    def check(trig, pred, only_ref=None):
        """Invariant: predictions equal the reference on `pred`."""
        robj = ref.cur if only_ref is None else only_ref
        ok, want = guarded(_predictions, robj, X[pred], freq)
        if not ok:
            # the reference itself cannot predict: nothing to compare with
            labels.append("reference_failed")
            return
        got = {}
        for name, w in wrappers.items():
            if name in dead:
                continue
            ok, g = guarded(_predictions, w, list(pred), freq)
            tag = "speedup_" if name == "speedup" else ""
            if not ok:
                viol.append(exc_violation(comp, g, trig + f"|{name}",
                                          "predict*"))
                dead.add(name)
                continue
            got[name] = g
            skip = ()
            if name == "speedup" and model.cur_known():
                skip = _near_tie_rows(case, X, [t[0] for t in model.cur],
                                      list(pred))
                if skip and "near_tie_rows_skipped" not in labels:
                    labels.append("near_tie_rows_skipped")
            viol.extend(_compare(comp, trig, tag, g, want, case, robj, skip))
        if "plain" in got and "speedup" in got:
            skip = ()
            if model.cur_known():
                skip = _near_tie_rows(case, X, [t[0] for t in model.cur],
                                      list(pred))
            v = _compare(comp, trig, "twin_", got["speedup"], got["plain"],
                         case, robj, skip)
            # report the twin deviation only if not already explained
            if v and not any(x.kind.startswith("speedup_") for x in viol):
                viol.extend(v)

    # predictions of a prefitted classifier before the first fit
    if prefit is not None:
        check(base_trig + "state=init", case["init_pred"], only_ref=prefit)

    n_init_viol = len(viol)   # deviations of the initial state do not
    #                           influence the history: keep searching

    def halted():
        # a variant that raised is dropped (`dead`), the twin goes on; any
        # other deviation ends the history (everything after it is noise)
        return any(not v.kind.startswith(("exception", "non_termination"))
                   for v in viol[n_init_viol:])
    pending = []          # caller buffers of earlier successful calls
    n_fit = n_pfit = n_pfit_base = n_pre = 0
    nt_diverged = nt_override = False
    n_uniq_replaced = 0

    for k, op in enumerate(case["ops"]):
        if halted() or len(dead) == len(wrappers):
            break
        if op["op"] == "precompute":
            n_pre += 1
            for name, w in wrappers.items():
                ok, r = guarded(w.precompute, list(op["idx_fit"]),
                                list(op["idx_pred"]),
                                fit_params=op["fit_params"],
                                pred_params=op["pred_params"])
                if not ok:
                    viol.append(exc_violation(
                        comp, r, base_trig + f"precompute|{name}",
                        f"op {k}"))
                    dead.add(name)
            continue

        idx = [int(i) for i in op["idx"]]
        is_fit = op["op"] == "fit"
        use_base = bool(op.get("use_base", False))
        ybuf = None if op["y"] is None else _yarr(op["y"], case)
        wbuf = None if op["w"] is None else np.array(op["w"], dtype=float)
        if case["reuse_buffers"]:
            y_arg, w_arg = ybuf, wbuf
        else:
            y_arg = None if op["y"] is None else list(op["y"])
            w_arg = None if op["w"] is None else list(op["w"])

        def call(w):
            if is_fit:
                return w.fit(list(idx), y=y_arg, sample_weight=w_arg,
                             set_base_clf=bool(op["set_base"]))
            return w.partial_fit(list(idx), y=y_arg, sample_weight=w_arg,
                                 use_base_clf=use_base,
                                 set_base_clf=bool(op["set_base"]))

        # ---- deliberately invalid call --------------------------------
        if op.get("expect"):
            cls = op["reject_class"]
            labels.append(f"reject={cls}")
            exp = NotFittedError if op["expect"] == "NotFittedError" \
                else ValueError
            for name, w in wrappers.items():
                ok, r = guarded(call, w)
                if ok:
                    viol.append(Violation(
                        comp, "invalid_call_not_rejected", cls,
                        f"op {k} ({name}) returned normally, documented: "
                        f"{op['expect']}"))
                elif not isinstance(r, exp):
                    if isinstance(r, Exception):
                        v = Violation(
                            comp, f"unclean_rejection:{type(r).__name__}",
                            f"reject={cls}",
                            f"op {k} ({name}), documented rejection is "
                            f"{op['expect']}: {type(r).__name__}: {r}")
                    else:
                        v = exc_violation(comp, r, f"reject={cls}",
                                          f"op {k} ({name})")
                    if v.signature not in [x.signature for x in viol]:
                        viol.append(v)
            if op["terminal"] or len(viol) > n_init_viol:
                break
            # (a rejected call that raised something else may have left the
            # wrapper half-updated: the history ends above)
            if model.cur is None and model.cur_init:
                check("state=init", op["pred"], only_ref=prefit)
            elif model.cur_fitted():
                # rejected before any assignment: state must be unchanged
                check(f"after_rejected={cls}", op["pred"])
            continue

        # ---- regular call ------------------------------------------------
        if is_fit:
            n_fit += 1
            override = op["y"] is not None
            trig = "fit" + ("+y" if override else "") + (
                "+w" if op["w"] is not None else "") + (
                "+set_base" if op["set_base"] else "")
            model.fit(idx, op["y"], op["w"], op["set_base"])
            add = None
        else:
            n_pfit += 1
            target = model.base if use_base else model.cur
            present = {t[0] for t in (target or [])}
            readd = any(i in present for i in idx)
            div = use_base and model.diverged()
            if use_base:
                n_pfit_base += 1
            if div:
                nt_diverged = True
            if readd and op["y"] is not None:
                nt_override = True
            if readd and case["enforce_unique_samples"] and not native:
                n_uniq_replaced += 1
            trig = "partial_fit" + ("+base" if use_base else "") + (
                "+diverged" if div else "") + (
                "+readd" if readd else "") + (
                "+y" if op["y"] is not None else "") + (
                "+set_base" if op["set_base"] else "")
            add = model.triples(idx, op["y"], op["w"])
            model.partial_fit(idx, op["y"], op["w"], use_base,
                              op["set_base"])
        trig = base_trig + trig + (
            "|uniq" if case["enforce_unique_samples"] else "")

        okr, r = guarded(
            (lambda: ref.after_fit(model, op["set_base"])) if is_fit else
            (lambda: ref.after_partial_fit(model, add, use_base,
                                           op["set_base"])))
        for name, w in wrappers.items():
            if name in dead:
                continue
            ok, rr = guarded(call, w)
            if not ok:
                if not okr and type(rr) is type(r):
                    continue
                viol.append(exc_violation(comp, rr, trig + f"|{name}",
                                          f"op {k} {op['op']}"))
                dead.add(name)
        if not okr:
            # the plain classifier itself rejects this training set
            labels.append("reference_fit_failed")
            break
        if halted() or len(dead) == len(wrappers):
            break
        # the caller re-uses the buffers of earlier calls
        for what, b in pending:
            _scribble(what, b, case)
        pending = []
        if case["reuse_buffers"]:
            if ybuf is not None:
                pending.append(("y", ybuf))
            if wbuf is not None:
                pending.append(("w", wbuf))
        check(trig, op["pred"])

    # The caller keeps using its own classifier object after handing it to
    # the wrapper (e.g. refits it for evaluation, or hands it to a second
    # strategy): once the wrapper has been fitted through its own fit /
    # partial_fit it must behave like "a fresh copy of the wrapped
    # classifier", i.e. its predictions must not follow the caller's object.
    if not viol and not dead and prefit is None:
        name0 = variants[0][0]
        wa = wrappers[name0]
        allidx = list(range(len(X)))
        if hasattr(wa, "clf_"):
            ok, before = guarded(_predictions, wa, allidx, freq)
            K = case["n_classes"]
            if case["enc"] == "nan":
                y_other = np.array([float(i % K) for i in allidx])
            else:
                y_other = np.array([i % K for i in allidx], dtype=int)
            okf, _ = guarded(handed_objs[name0].fit, X.copy(), y_other)
            ok2, after = guarded(_predictions, wa, allidx, freq)
            if ok and okf and ok2:
                if not arr_close(np.asarray(before["proba"], dtype=float),
                                 np.asarray(after["proba"], dtype=float),
                                 **DIFF):
                    viol.append(Violation(
                        comp, "caller_classifier_aliased",
                        "caller_refits_its_classifier_object",
                        "refitting the classifier object that was handed to "
                        "the wrapper changed the wrapper's predictions"))
                labels.append("caller_refit=checked")
    if gm:
        # the speed-up cannot handle the symbolic bandwidth 'mean'
        # (precompute hands it to pairwise_kernels): one signature for it;
        # every other deviation keeps its own signature.
        seen, out = set(), []
        for v in viol:
            if v.kind.startswith("exception:TypeError@utils.py:precompute"):
                if v.kind not in seen:
                    seen.add(v.kind)
                    out.append(Violation(comp, v.kind, "gamma=mean",
                                         f"[{v.trigger}] {v.detail}"))
            else:
                out.append(v)
        viol = out
    nontrivial = nt_diverged or nt_override
    labels += [f"ops_fit={_bucket(n_fit)}", f"ops_partial_fit={_bucket(n_pfit)}",
               f"ops_partial_fit_base={_bucket(n_pfit_base)}",
               f"ops_precompute={_bucket(n_pre)}",
               f"nt_base_after_divergence={nt_diverged}",
               f"nt_label_override_on_present_index={nt_override}",
               f"unique_replacement={n_uniq_replaced > 0}"]
    if native:
        labels.append(f"native_partial_fit_used={model.native_used}")
    return Outcome(viol, nontrivial, labels)
