"""Multi-annotator parts of C06 (reproducibility) and C09 (label encoding),
built on the C07 generator / builder."""
import numpy as np
from hypothesis import strategies as st

from ..common import (Outcome, Violation, exc_violation, guarded,
                      arr_equal_exact, arr_close, SAME, DIFF)
from . import c07, ma_util

# numeric encodings only: (class labels for ids 0..2, missing label)
MA_ENCODINGS = {"float_nan": ([0.0, 1.0, 2.0], float("nan")),
                "float10_nan": ([10.0, 20.0, 30.0], float("nan")),
                "num_m1": ([0.0, 1.0, 2.0], -1.0),
                "num_99": ([3.0, 5.0, 8.0], 99.0),
                "str_zz": (["a", "b", "c"], "zz")}


@st.composite
def _case(draw, kind):
    case = draw(c07._case(force_klass="regular"))
    case["kind"] = kind
    if not isinstance(case["batch_size"], int):
        case["batch_size"] = 2
    case["g1"] = draw(st.integers(0, 10**6))
    case["g2"] = 10**6 + 1 + draw(st.integers(0, 10**6))
    case["enc2"] = draw(st.sampled_from(["float10_nan", "num_m1", "num_99",
                                         "str_zz"]))
    case["rs_kind"] = draw(st.sampled_from(["int", "int", "RandomState"]))
    return case


def repro_strategy():
    return _case("ma_repro")


def enc_strategy():
    return _case("ma_enc")


def _set_missing(obj, missing, classes, seen=None):
    """Set missing_label / classes consistently on a strategy and everything
    it holds (wrapped strategy, classifiers, ensemble members)."""
    seen = seen if seen is not None else set()
    if id(obj) in seen:
        return
    seen.add(id(obj))
    if isinstance(obj, (list, tuple)):
        for o in obj:
            _set_missing(o[1] if isinstance(o, tuple) else o, missing,
                         classes, seen)
        return
    if not hasattr(obj, "get_params"):
        return
    params = obj.get_params(deep=False)
    upd = {}
    if "missing_label" in params:
        upd["missing_label"] = missing
    if "classes" in params and params["classes"] is not None:
        upd["classes"] = list(classes)
    if upd:
        obj.set_params(**upd)
    for v in params.values():
        if hasattr(v, "get_params") or isinstance(v, (list, tuple)):
            _set_missing(v, missing, classes, seen)


def _call(case, enc, gseed, repeat=False):
    labels_, missing = MA_ENCODINGS[enc]
    K = case["n_classes"]
    classes = labels_[:K]
    X, y, cand_arg, annot_arg, AV, sel_rows = ma_util.args_of(case)
    if isinstance(missing, str):
        y_enc = np.full(y.shape, missing, dtype="U2")
    else:
        y_enc = np.full(y.shape, missing, dtype=float)
    for c in range(K):
        y_enc[y == c] = labels_[c]
    qs, kw = c07._build(case, list(range(K)))
    if case.get("rs_kind") == "RandomState":
        qs.set_params(random_state=np.random.RandomState(case["seed"]))
    _set_missing(qs, missing, classes)
    for v in kw.values():
        _set_missing(v, missing, classes)
    np.random.seed(gseed)
    ok, r = guarded(qs.query, X.copy(), y_enc, candidates=cand_arg,
                    annotators=annot_arg, batch_size=case["batch_size"],
                    return_utilities=True, **kw)
    if repeat and ok:
        np.random.seed(gseed + 7)
        ok2, r2 = guarded(qs.query, X.copy(), y_enc, candidates=cand_arg,
                          annotators=annot_arg,
                          batch_size=case["batch_size"],
                          return_utilities=True, **kw)
        return ok, r, (ok2, r2)
    return ok, r, (AV, sel_rows)


def _regular(case):
    X, y, cand_arg, annot_arg, AV, sel_rows = ma_util.args_of(case)
    return int(AV.sum()) > 0 and all(AV[r].any() for r in sel_rows)


def run_case(case):
    comp = ("SingleAnnotatorWrapper" if case["component"] == "SAW"
            else "IntervalEstimationThreshold")
    cfg = case["inner"] or case["clf"]
    comp = f"{comp}[{cfg}]"
    labels = [f"component={comp}", f"kind={case['kind']}"]
    if not _regular(case):
        return Outcome([], False, labels + ["not_regular"])
    rep = None
    if case["kind"] == "ma_repro":
        ok1, r1, rep = _call(case, "float_nan", case["g1"], repeat=True)
        ok2, r2, _ = _call(case, "float_nan", case["g2"])
        trig = f"multi_annotator&rs={case.get('rs_kind', 'int')}"
        k1 = "twin_objects_differ"
        labels.append(f"rs={case.get('rs_kind', 'int')}")
    else:
        ok1, r1, _ = _call(case, "float_nan", 0)
        ok2, r2, _ = _call(case, case["enc2"], 0)
        from . import c09
        trig = {"float10_nan": "numeric_classes_renamed",
                "num_m1": "numeric_sentinel",
                "num_99": "numeric_classes_renamed&numeric_sentinel",
                "str_zz": "string_labels"}[
                    case["enc2"]]
        labels.append(f"enc={case['enc2']}")
        k1 = "indices_differ"
    if not ok1:
        return Outcome([], False, labels + ["base_query_raised"])
    if not ok2:
        if case["kind"] == "ma_repro":
            return Outcome([Violation(
                comp, "exception_depends_on_global_state", trig,
                repr(r2)[:200])], True, labels)
        return Outcome([exc_violation(comp, r2, trig, "re-encoded query")],
                       True, labels)
    viol = []
    q1, u1 = r1
    q2, u2 = r2
    tol = SAME if case["kind"] == "ma_repro" else DIFF
    if not arr_close(u1, u2, **tol):
        viol.append(Violation(comp, "utilities_differ"
                              if case["kind"] == "ma_enc"
                              else "twin_objects_differ", trig,
                              "utilities differ"))
    elif not arr_equal_exact(np.asarray(q1), np.asarray(q2)):
        viol.append(Violation(comp, k1, trig,
                              f"{np.asarray(q1).tolist()} vs "
                              f"{np.asarray(q2).tolist()}"))
    if rep is not None and not viol:
        ok3, r3 = rep
        if not ok3:
            viol.append(Violation(comp, "repeated_call_raises", trig,
                                  repr(r3)[:200]))
        else:
            q3, u3 = r3
            if (not arr_close(u1, u3, **SAME) or not arr_equal_exact(
                    np.asarray(q1), np.asarray(q3))):
                viol.append(Violation(
                    comp, "repeated_call_differs", trig,
                    f"{np.asarray(q1).tolist()} vs "
                    f"{np.asarray(q3).tolist()}"))
    return Outcome(viol, True, labels)
