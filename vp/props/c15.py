"""C15 - regressor predictions are coherent with their predictive distribution.

Components: NICKernelRegressor (arbitrary accepted priors, incl. the improper
kappa_0=0 / nu_0=0 and the degenerate sigma_sq_0=0), NadarayaWatsonRegressor
(>= 1 label), SklearnRegressor(LinearRegression / DecisionTreeRegressor /
GaussianProcessRegressor / NeedsThree) and SklearnNormalRegressor
(GaussianProcessRegressor / BayesianRidge / NeedsThree).  `NeedsThree` is a
harness-defined scikit-learn regressor whose `fit` raises for fewer than three
samples (the "wrapped estimator cannot be fitted although labels exist"
branch).

Oracle (see RULE / ASSUMPTIONS below and DESIGN.md section 4, C15).
"""
import numpy as np
from hypothesis import strategies as st

from ..common import (DIFF, SAME, Outcome, Violation, arr_close,
                      exc_violation, guarded, quiet)

PROPERTY_ID = "C15"
TECHNIQUE = ("Hypothesis-generated training sets / priors / query points; "
             "predict, predict_target_distribution and sample_y of the same "
             "fitted regressor are compared with each other, with a reference "
             "conjugate update (kernel regressors), with the wrapped "
             "estimator (normal wrapper) and with the documented fallback "
             "values (wrappers)")
RULE = (
    "Cases: component in {NICKernelRegressor(prior kappa_0, nu_0, mu_0, "
    "sigma_sq_0 from {default, 0, ints, floats in [0.01,10]}), "
    "NadarayaWatsonRegressor, SklearnRegressor[LinearRegression, "
    "DecisionTreeRegressor, GPR default, GPR fixed rbf, NeedsThree], "
    "SklearnNormalRegressor[GPR default, GPR fixed rbf, BayesianRidge, "
    "NeedsThree]} x training set (1-10 rows, 1-3 features, continuous / "
    "lattice / all-equal rows, 0,1,2,3,n/2,n labeled rows, NaN = missing, "
    "label values with repeats) x rbf gamma in {None} u [0.1,5] x optional "
    "positive sample weights (kernel regressors) x 1-5 query points of kind "
    "train-row / perturbed row / bounding box +-1 / offset 3..40 / offset 150 "
    "/ offset with gamma*d^2 in [709,742] (subnormal kernel value) x numeric "
    "or NaN missing_label x one re-used query buffer overwritten in place "
    "x n_samples 1-4 x seed. Per query row the geometry class is computed "
    "from the input: near (largest kernel value >= 1e-8), mid (>= 1e-290), "
    "sub (positive, below), far (gamma*d^2 > 800 for every labeled sample: "
    "every kernel value is exactly 0.0), nolabels. Distinct = distinct case "
    "hash; non-trivial = at most one labeled sample, or an improper / "
    "degenerate prior (kappa_0=0 or nu_0=0 or sigma_sq_0=0; Nadaraya-Watson "
    "always), or the wrapper fallback branch (wrapped fit fails).")
ASSUMPTIONS = [
    "predict / predict_target_distribution / sample_y of one fitted object "
    "are compared with rtol=1e-9 (same computation twice), references with "
    "rtol=1e-6 (different computation)",
    "std finite and >= 0 is asserted for the kernel regressors only where the "
    "returned distribution reports df > 2 AND the posterior is well defined "
    "by the input: proper prior (kappa_0>0, nu_0>0, sigma_sq_0>0) in every "
    "geometry class (incl. sub), or an improper prior in the near class "
    "with kappa_post>0, nu_post>0 and a positive scatter guaranteed by "
    "nu_0*sigma_sq_0>0 or two well-weighted distinct label values; "
    "mean finite is asserted under the same condition with df > 1 (scipy "
    "reports inf/NaN means for df <= 1, which is statistically correct); "
    "elsewhere only 'std is not negative'",
    "the far class with an improper prior mean (kappa_0=0, e.g. "
    "NadarayaWatsonRegressor) is 0/0 by definition and not asserted",
    "sample_y is called only when the returned distribution has finite "
    "loc/scale, scale>0 (and df>0); scipy rejects other parameters",
    "fallback values: no label -> mean 0 / std 1 (asserted by the package's "
    "own tests); fit fails with labels -> empirical label mean, and "
    "np.std(labels) for >= 2 labels; with exactly one label only "
    "'std finite and > 0' is asserted",
    "GaussianProcessRegressor never raises NotFittedError: without labels "
    "its prior (mean 0, std 1 for unit-diagonal kernels) is returned, which "
    "coincides with the documented default",
    "SklearnNormalRegressor: std finite and >= 0 is asserted on the fallback "
    "branch and with >= 2 labels; with one label and a fitted estimator the "
    "value is scikit-learn's",
    "SklearnRegressor.predict is passed through: a 0-d mean for a single "
    "query row (scikit-learn's unfitted GaussianProcessRegressor) is accepted",
    "SklearnRegressor[GPR].sample_y is not called for (no label, one query "
    "row): scikit-learn's unfitted GPR raises IndexError there",
    "sample weights are strictly positive and only given with >= 1 label "
    "(NICKernelRegressor.fit rejects weights when no sample is labeled); features in [-4,4] (query offsets "
    "up to 150), labels in [-5,5] with two decimals",
]
PROFILE = {
    "quick": dict(examples=2500, shards=16, budget_s=100),
    "thorough": dict(examples=36000, shards=16, budget_s=1100),
}

KERNEL = ("NICKernelRegressor", "NadarayaWatsonRegressor")
SR_EST = ["LinearRegression", "DecisionTreeRegressor", "GPR_default",
          "GPR_rbf_fixed", "NeedsThree"]
SNR_EST = ["GPR_default", "GPR_rbf_fixed", "BayesianRidge", "NeedsThree"]
COMBOS = [(False, False), (True, False), (False, True), (True, True)]
NEAR_K = 1e-8
MID_K = 1e-290
FAR_EXP = 800.0


# ------------------------------------------------------- harness estimator --
def _needs_three_cls():
    """Defined lazily so that importing this module does not import sklearn
    before the runner has set up the environment."""
    global _NeedsThree
    try:
        return _NeedsThree
    except NameError:
        pass
    from sklearn.base import BaseEstimator, RegressorMixin
    from sklearn.utils.validation import check_is_fitted

    class NeedsThree(RegressorMixin, BaseEstimator):
        """Constant-mean regressor whose fit raises for n < 3."""

        def fit(self, X, y, sample_weight=None):
            if len(y) < 3:
                raise ValueError("NeedsThree requires at least 3 samples")
            self.mean_ = float(np.mean(y))
            self.std_ = float(np.std(y)) + 0.5
            return self

        def predict(self, X, return_std=False):
            check_is_fitted(self, "mean_")
            m = np.full(len(X), self.mean_)
            if return_std:
                return m, np.full(len(X), self.std_)
            return m

        def sample_y(self, X, n_samples=1, random_state=0):
            check_is_fitted(self, "mean_")
            rs = np.random.RandomState(random_state)
            return rs.randn(len(X), n_samples) * self.std_ + self.mean_

    NeedsThree.__module__ = __name__
    _NeedsThree = NeedsThree
    return NeedsThree


def _make_estimator(name):
    if name == "LinearRegression":
        from sklearn.linear_model import LinearRegression
        return LinearRegression()
    if name == "DecisionTreeRegressor":
        from sklearn.tree import DecisionTreeRegressor
        return DecisionTreeRegressor(random_state=0)
    if name == "GPR_default":
        from sklearn.gaussian_process import GaussianProcessRegressor
        return GaussianProcessRegressor(random_state=0)
    if name == "GPR_rbf_fixed":
        from sklearn.gaussian_process import GaussianProcessRegressor
        from sklearn.gaussian_process.kernels import RBF
        return GaussianProcessRegressor(kernel=RBF(1.0), optimizer=None,
                                        alpha=1e-6, random_state=0)
    if name == "BayesianRidge":
        from sklearn.linear_model import BayesianRidge
        return BayesianRidge()
    if name == "NeedsThree":
        return _needs_three_cls()()
    raise ValueError(name)


def _build(case):
    from skactiveml.regressor import (NICKernelRegressor,
                                      NadarayaWatsonRegressor,
                                      SklearnNormalRegressor, SklearnRegressor)
    comp = case["component"]
    seed = case["seed"]
    if case.get("reg_random_state") == "none":
        seed = None
    if case.get("missing_label") is not None:
        reg = _build(dict(case, missing_label=None))
        reg.set_params(missing_label=case["missing_label"])
        return reg
    if comp in KERNEL:
        md = None if case["gamma"] is None else {"gamma": case["gamma"]}
        if comp == "NICKernelRegressor":
            p = case["prior"]
            return NICKernelRegressor(
                metric="rbf", metric_dict=md, mu_0=p["mu_0"],
                kappa_0=p["kappa_0"], sigma_sq_0=p["sigma_sq_0"],
                nu_0=p["nu_0"], random_state=seed)
        return NadarayaWatsonRegressor(metric="rbf", metric_dict=md,
                                       random_state=seed)
    est = _make_estimator(case["estimator"])
    if comp == "SklearnRegressor":
        return SklearnRegressor(est, random_state=seed)
    return SklearnNormalRegressor(est, random_state=seed)


# -------------------------------------------------------------- generator --
_Y_POOL = [-2.0, 0.0, 0.5, 1.5, 1.5, 3.25]


@st.composite
def _dataset(draw):
    n = draw(st.integers(1, 10))
    d = draw(st.integers(1, 3))
    regime = draw(st.sampled_from(["cont", "cont", "lattice", "equal"]))
    if regime == "cont":
        X = [[round(draw(st.floats(-4, 4)), 2) for _ in range(d)]
             for _ in range(n)]
    elif regime == "lattice":
        X = [[float(draw(st.integers(-2, 2))) for _ in range(d)]
             for _ in range(n)]
    else:
        row = [float(draw(st.integers(-2, 2))) for _ in range(d)]
        X = [list(row) for _ in range(n)]
    yv = st.one_of(st.sampled_from(_Y_POOL),
                   st.floats(-5, 5).map(lambda v: round(v, 2)))
    vals = [draw(yv) for _ in range(n)]
    return n, d, X, vals


@st.composite
def _case(draw):
    comp = draw(st.sampled_from([
        "NICKernelRegressor", "NICKernelRegressor", "NICKernelRegressor",
        "NadarayaWatsonRegressor", "SklearnRegressor", "SklearnRegressor",
        "SklearnNormalRegressor", "SklearnNormalRegressor"]))
    n, d, X, vals = draw(_dataset())
    lo = 1 if comp == "NadarayaWatsonRegressor" else 0
    n_lab = draw(st.sampled_from([0, 1, 1, 2, 2, 3, n // 2, n, n]))
    n_lab = max(lo, min(n, n_lab))
    order = draw(st.permutations(list(range(n))))
    labeled = set(order[:n_lab])
    y = [vals[i] if i in labeled else float("nan") for i in range(n)]
    case = dict(component=comp, X=X, y=y,
                seed=draw(st.integers(0, 2**31 - 1)),
                n_samples=draw(st.integers(1, 4)))
    if comp in KERNEL:
        case["gamma"] = draw(st.one_of(
            st.sampled_from([None, 0.1, 0.5, 1.0, 5.0]),
            st.floats(0.1, 5.0).map(lambda v: round(v, 3))))
        if comp == "NICKernelRegressor":
            pos = st.one_of(st.sampled_from([0.1, 1, 1.0, 2, 2.5, 3, 5.0]),
                            st.floats(0.01, 10).map(lambda v: round(v, 3)),
                            st.floats(2.01, 10).map(lambda v: round(v, 3)))
            kind = draw(st.sampled_from([
                "default", "default", "proper", "proper", "proper",
                "kappa0", "kappa0", "nu0", "nu0", "kappa0+nu0", "sigma0",
                "any"]))
            zero = st.sampled_from([0, 0.0])
            prior = dict(kappa_0=0.1, nu_0=2.5, mu_0=0, sigma_sq_0=1.0)
            if kind != "default":
                prior = dict(
                    kappa_0=draw(pos), nu_0=draw(pos),
                    mu_0=draw(st.one_of(
                        st.sampled_from([0, 0, 1, -2.5]),
                        st.floats(-5, 5).map(lambda v: round(v, 2)))),
                    sigma_sq_0=draw(st.one_of(st.sampled_from([1.0, 1]),
                                              pos)))
                if "kappa0" in kind:
                    prior["kappa_0"] = draw(zero)
                if "nu0" in kind:
                    prior["nu_0"] = draw(zero)
                if kind == "sigma0":
                    prior["sigma_sq_0"] = draw(zero)
                if kind == "any":
                    for k in ("kappa_0", "nu_0", "sigma_sq_0"):
                        if draw(st.booleans()):
                            prior[k] = draw(zero)
            case["prior"] = prior
        # with no labeled sample NICKernelRegressor.fit rejects any weights
        # ("must not be all zero": the empty sum is 0) - outside the domain
        if n_lab >= 1 and draw(st.integers(0, 4)) == 4:
            case["sample_weight"] = [
                round(draw(st.floats(0.1, 5.0)), 2) for _ in range(n)]
        else:
            case["sample_weight"] = None
    else:
        pool = SR_EST if comp == "SklearnRegressor" else SNR_EST
        case["estimator"] = draw(st.sampled_from(pool + ["NeedsThree"]))
    # query points
    nq = draw(st.integers(1, 5))
    arr = np.array(X, dtype=float)
    lo_b, hi_b = arr.min(axis=0) - 1.0, arr.max(axis=0) + 1.0
    with_far = draw(st.integers(0, 4)) == 4
    Xq = []
    for k in range(nq):
        kind = draw(st.sampled_from(["row", "pert", "pert", "box", "box",
                                     "mid", "edge"]))
        if with_far and k == 0:
            kind = "far"
        elif with_far and draw(st.integers(0, 2)) == 2:
            kind = "far"
        base = list(X[draw(st.integers(0, n - 1))])
        if kind == "row":
            q = base
        elif kind == "pert":
            q = [round(b + draw(st.floats(-1, 1)), 2) for b in base]
        elif kind == "box":
            q = [round(draw(st.floats(float(lo_b[j]), float(hi_b[j]))), 2)
                 for j in range(d)]
        elif kind == "edge":
            # rbf kernel value in the denormal range (exp(-709) .. exp(-744)):
            # the kernel mass is positive but 1 / mass overflows
            g_eff = case.get("gamma") or 1.0 / d
            u = draw(st.sampled_from([709.0, 715.0, 725.0, 735.0, 742.0]))
            q = list(base)
            j = draw(st.integers(0, d - 1))
            q[j] = q[j] + draw(st.sampled_from([-1, 1])) * (u / g_eff) ** 0.5
        elif kind == "mid":
            q = list(base)
            j = draw(st.integers(0, d - 1))
            q[j] = round(q[j] + draw(st.sampled_from([-1, 1]))
                         * draw(st.floats(3, 40)), 1)
        else:
            q = list(base)
            j = draw(st.integers(0, d - 1))
            q[j] = q[j] + draw(st.sampled_from([-150.0, 150.0]))
        Xq.append([float(v) for v in q])
    # query matrices with an integer dtype (e.g. one-hot / count features)
    case["xq_int"] = draw(st.integers(0, 3)) == 0
    if case["xq_int"]:
        Xq = [[float(round(v)) for v in q] for q in Xq]
    case["Xq"] = Xq
    # seeds passed to sample_y (0 is a valid seed) and the regressor's own
    # random_state (None is the default)
    case["sample_seed"] = draw(st.sampled_from([0, 0, 1, 12345]))
    case["reg_random_state"] = draw(st.sampled_from(["int", "int", "none"]))
    # the missing-label sentinel is a constructor parameter: NaN (default) or
    # a number that is not among the labels
    case["missing_label"] = draw(st.sampled_from([None, None, -1000.0, 999]))
    return case


def case_strategy(tier, shard=0, nshards=1):
    return _case()


# ----------------------------------------------------------------- oracle --
def _prior_of(case):
    if case["component"] == "NadarayaWatsonRegressor":
        return dict(kappa_0=0, nu_0=3, mu_0=0, sigma_sq_0=1)
    return case["prior"]


def _prior_class(p):
    if p["kappa_0"] > 0 and p["nu_0"] > 0 and p["sigma_sq_0"] > 0:
        if p["kappa_0"] == 0.1 and p["nu_0"] == 2.5 and p["sigma_sq_0"] == 1:
            return "default"
        return "proper_nu>2" if p["nu_0"] > 2 else "proper_nu<=2"
    parts = []
    if p["kappa_0"] == 0:
        parts.append("kappa0")
    if p["nu_0"] == 0:
        parts.append("nu0")
    if p["sigma_sq_0"] == 0:
        parts.append("sigma0")
    return "improper_" + "+".join(parts)


def _kernel_model(case):
    """Reference quantities of the kernel regressors computed from the input:
    per query row the geometry class, the kernel mass N, the reference
    posterior mean / df and whether a well-defined posterior is expected."""
    X = np.array(case["X"], dtype=float)
    y = np.array(case["y"], dtype=float)
    Xq = np.array(case["Xq"], dtype=float)
    lab = ~np.isnan(y)
    p = _prior_of(case)
    k0, n0, m0, s0 = (float(p["kappa_0"]), float(p["nu_0"]), float(p["mu_0"]),
                      float(p["sigma_sq_0"]))
    proper = k0 > 0 and n0 > 0 and s0 > 0
    q = len(Xq)
    n_lab = int(lab.sum())
    out = dict(proper=proper, n_lab=n_lab, geom=[], expect_valid=[],
               ref_mean=[None] * q, ref_df=[None] * q)
    if n_lab == 0:
        out["geom"] = ["nolabels"] * q
        out["expect_valid"] = [True if proper else None] * q
        if k0 > 0:
            out["ref_mean"] = [m0] * q
        out["ref_df"] = [n0] * q
        return out
    Xl, yl = X[lab], y[lab]
    gamma = case["gamma"]
    gamma = 1.0 / X.shape[1] if gamma is None else float(gamma)
    w = (np.ones(n_lab) if case.get("sample_weight") is None
         else np.array(case["sample_weight"], dtype=float)[lab])
    d2 = ((Xq[:, None, :] - Xl[None, :, :]) ** 2).sum(-1)
    with np.errstate(all="ignore"):
        K = np.exp(-gamma * d2)
        Kw = K * w[None, :]
        N = Kw.sum(axis=1)
    for i in range(q):
        kmax = float(K[i].max())
        if kmax >= NEAR_K:
            g = "near"
        elif gamma * float(d2[i].min()) > FAR_EXP:
            g = "far"
        elif kmax >= MID_K:
            g = "mid"
        else:
            g = "sub"
        out["geom"].append(g)
        ev = None
        if proper:
            # a proper prior alone guarantees a well-defined posterior -
            # also where the kernel mass is a subnormal number ("sub")
            ev = True
        elif g == "near":
            # any labeled sample whose kernel weight has not underflowed
            # contributes a strictly positive scatter term (two-pass variance)
            strong = Kw[i] >= 1e-150 * Kw[i].max()
            distinct = len(set(np.round(yl[strong], 6).tolist())) >= 2
            if (n0 > 0 and s0 > 0) or distinct:
                ev = True  # kappa_post >= N > 0, nu_post >= N > 0
        out["expect_valid"].append(ev)
        if g in ("near", "mid"):
            out["ref_mean"][i] = float(
                (k0 * m0 + float(Kw[i] @ yl)) / (k0 + float(N[i])))
            out["ref_df"][i] = n0 + float(N[i])
        elif g == "far":
            out["ref_df"][i] = n0
            if k0 > 0:
                out["ref_mean"][i] = m0
    return out


def _as_rows(v, q):
    return np.broadcast_to(np.asarray(v, dtype=float), (q,)).copy()


def _supports_return_std(est_name):
    return est_name in ("GPR_default", "GPR_rbf_fixed", "BayesianRidge",
                        "NeedsThree")


def _y_arg(case, y):
    """y as handed to fit: NaN replaced by the configured sentinel."""
    ml = case.get("missing_label")
    if ml is None:
        return y.copy()
    return np.where(np.isnan(y), float(ml), y)


def _fallback_expectation(case):
    """(fit_fails, exp_mean, exp_std or None) derived from the input."""
    y = np.array(case["y"], dtype=float)
    yl = y[~np.isnan(y)]
    n_lab = len(yl)
    fails = n_lab == 0 or (case["estimator"] == "NeedsThree" and n_lab < 3)
    if not fails:
        return False, None, None, n_lab
    if n_lab == 0:
        return True, 0.0, 1.0, n_lab
    if n_lab == 1:
        return True, float(yl[0]), None, n_lab
    return True, float(np.mean(yl)), float(np.std(yl)), n_lab


def _check_sampling(reg, comp, case, Xq, trig, viol, labels):
    m = case["n_samples"]
    s = case.get("sample_seed", case["seed"] % 100000)
    ok1, s1 = guarded(reg.sample_y, Xq.copy(), m, random_state=s)
    if not ok1:
        viol.append(exc_violation(comp, s1, trig, "sample_y"))
        return
    # an unrelated draw in between: a seed-ignoring implementation that
    # re-seeds nothing then shows different values
    guarded(reg.sample_y, Xq.copy(), 1, random_state=s + 1)
    ok2, s2 = guarded(reg.sample_y, Xq.copy(), m, random_state=s)
    if not ok2:
        viol.append(exc_violation(comp, s2, trig, "sample_y(2nd)"))
        return
    s1, s2 = np.asarray(s1), np.asarray(s2)
    if s1.shape != (len(Xq), m):
        viol.append(Violation(comp, "sample_y_bad_shape", trig,
                              f"shape {s1.shape}, want {(len(Xq), m)}"))
        return
    if s2.shape != s1.shape or not np.array_equal(s1, s2, equal_nan=True):
        viol.append(Violation(comp, "sample_y_not_reproducible", trig,
                              f"random_state={s}: {s1.tolist()} vs "
                              f"{s2.tolist()}"))
    labels.append("sample_y=checked")


def _check_predict_coherence(reg, comp, Xq, rv, trig, viol):
    """predict == mean/std/entropy of the frozen distribution, all
    return-tuple combinations."""
    q = len(Xq)
    with quiet():
        ref = dict(mean=_as_rows(rv.mean(), q), std=_as_rows(rv.std(), q),
                   entropy=_as_rows(rv.entropy(), q))
    for rs, re in COMBOS:
        ok, out = guarded(reg.predict, Xq.copy(), return_std=rs,
                          return_entropy=re)
        where = f"predict(return_std={rs}, return_entropy={re})"
        if not ok:
            viol.append(exc_violation(comp, out, trig, where))
            continue
        names = ["mean"] + (["std"] if rs else []) + (
            ["entropy"] if re else [])
        if len(names) == 1:
            if isinstance(out, tuple):
                viol.append(Violation(comp, "predict_bad_structure", trig,
                                      f"{where}: returned a tuple"))
                continue
            parts = [out]
        else:
            if not isinstance(out, tuple) or len(out) != len(names):
                viol.append(Violation(
                    comp, "predict_bad_structure", trig,
                    f"{where}: expected a {len(names)}-tuple, got "
                    f"{type(out).__name__}"))
                continue
            parts = list(out)
        for name, val in zip(names, parts):
            val = np.asarray(val)
            if val.shape != (q,):
                viol.append(Violation(
                    comp, f"predict_{name}_bad_shape", trig,
                    f"{where}: shape {val.shape}, want {(q,)}"))
                continue
            if not arr_close(val, ref[name], **SAME):
                viol.append(Violation(
                    comp, f"predict_{name}_differs_from_distribution", trig,
                    f"{where}: {val.tolist()} vs distribution "
                    f"{ref[name].tolist()}"))
    # a caller that re-uses ONE query buffer: predict must describe the
    # buffer's current content, not what the same object held before
    if not viol:
        buf = Xq.copy()
        guarded(reg.predict, buf, return_std=True)
        X2 = Xq[::-1] + (1 if Xq.dtype.kind in "iu" else 0.5)
        buf[...] = X2
        ok, out = guarded(reg.predict, buf, return_std=True)
        ok2, rv2 = guarded(reg.predict_target_distribution, X2.copy())
        if ok and ok2 and isinstance(out, tuple) and len(out) == 2:
            with quiet():
                m2, s2 = _as_rows(rv2.mean(), q), _as_rows(rv2.std(), q)
            for name, val, want in (("mean", out[0], m2),
                                    ("std", out[1], s2)):
                val = np.asarray(val)
                if val.shape == (q,) and not arr_close(val, want, **SAME):
                    viol.append(Violation(
                        comp, f"predict_{name}_differs_from_distribution",
                        trig + "&query_buffer_reused",
                        f"after the buffer was overwritten in place: "
                        f"{val.tolist()} vs distribution {want.tolist()}"))
                    break
    return ref


def _run_kernel(case):
    comp = case["component"]
    model = _kernel_model(case)
    p = _prior_of(case)
    pcl = _prior_class(p)
    n_lab = model["n_lab"]
    labels = [f"component={comp}", f"n_lab={min(n_lab, 3)}"
              + ("+" if n_lab >= 3 else ""), f"prior={pcl}",
              f"weights={case.get('sample_weight') is not None}",
              f"gamma_none={case['gamma'] is None}",
              f"missing_label={'nan' if case.get('missing_label') is None else 'number'}"]
    for g in sorted(set(model["geom"])):
        labels.append(f"geom={g}")
    nontrivial = n_lab <= 1 or not model["proper"]
    viol = []
    X = np.array(case["X"], dtype=float)
    y = np.array(case["y"], dtype=float)
    Xq = np.array(case["Xq"], dtype=float)
    if case.get("xq_int"):
        Xq = Xq.astype(int)
    q = len(Xq)
    sw = case.get("sample_weight")
    base_trig = f"prior={pcl}"
    ok, reg = guarded(_build, case)
    if not ok:
        return Outcome([exc_violation(comp, reg, base_trig, "construct")],
                       nontrivial, labels)
    if sw is None:
        ok, r = guarded(reg.fit, X.copy(), _y_arg(case, y))
    else:
        ok, r = guarded(reg.fit, X.copy(), _y_arg(case, y),
                        sample_weight=np.array(sw, dtype=float))
    if not ok:
        return Outcome([exc_violation(comp, r, base_trig, "fit")],
                       nontrivial, labels)
    ok, rv = guarded(reg.predict_target_distribution, Xq.copy())
    if not ok:
        return Outcome([exc_violation(comp, rv, base_trig,
                                      "predict_target_distribution")],
                       nontrivial, labels)
    ref = _check_predict_coherence(reg, comp, Xq, rv, base_trig, viol)
    kw = getattr(rv, "kwds", {})
    if "df" not in kw or "loc" not in kw or "scale" not in kw:
        viol.append(Violation(comp, "distribution_without_df_loc_scale",
                              base_trig, f"kwds={sorted(kw)}"))
        return Outcome(viol, nontrivial, labels)
    df = _as_rows(kw["df"], q)
    loc = _as_rows(kw["loc"], q)
    scale = _as_rows(kw["scale"], q)
    mean, std = ref["mean"], ref["std"]
    dfcl, asserted = set(), set()
    for i in range(q):
        g = model["geom"][i]
        trig = ("all_kernel_values_underflow" if g == "far"
                else f"geom={g},prior={pcl}")
        det = (f"row {i} x={Xq[i].tolist()} geom={g} df={df[i]} "
               f"loc={loc[i]} scale={scale[i]} mean={mean[i]} std={std[i]} "
               f"prior={p} n_lab={n_lab}")
        if std[i] < 0:
            viol.append(Violation(comp, "std_negative", trig, det))
        dfcl.add("nan" if np.isnan(df[i]) else "<=1" if df[i] <= 1
                 else "<=2" if df[i] <= 2 else ">2")
        if model["expect_valid"][i]:
            if not np.isfinite(df[i]) or df[i] <= 0:
                viol.append(Violation(comp, "df_not_positive_finite", trig,
                                      det))
                continue
            if df[i] > 1 and not np.isfinite(mean[i]):
                viol.append(Violation(comp, "mean_not_finite", trig, det))
            if df[i] > 2:
                asserted.add("std_finite_asserted="
                             + ("proper" if model["proper"] else "improper")
                             + "_prior")
                if not (np.isfinite(std[i]) and std[i] >= 0):
                    viol.append(Violation(comp, "std_not_finite", trig, det))
            if g != "far":
                rdf = model["ref_df"][i]
                if rdf is not None and not arr_close(df[i], rdf, **DIFF):
                    viol.append(Violation(
                        comp, "df_not_prior_plus_kernel_mass", trig,
                        det + f" reference df={rdf}"))
                rm = model["ref_mean"][i]
                if rm is not None and df[i] > 1 and np.isfinite(mean[i]):
                    asserted.add("mean_reference_checked")
                if (rm is not None and df[i] > 1 and np.isfinite(mean[i])
                        and not arr_close(mean[i], rm, **DIFF)):
                    viol.append(Violation(
                        comp, "mean_not_weighted_average", trig,
                        det + f" reference mean={rm}"))
    for c in sorted(dfcl):
        labels.append(f"df{c}")
    labels.extend(sorted(asserted))
    can_sample = bool(np.all(np.isfinite(loc)) and np.all(np.isfinite(scale))
                      and np.all(scale > 0) and np.all(np.isfinite(df))
                      and np.all(df > 0))
    if can_sample:
        _check_sampling(reg, comp, case, Xq, base_trig, viol, labels)
    else:
        labels.append("sample_y=skipped_invalid_params")
    return Outcome(viol, nontrivial, labels)


def _check_fallback_values(comp, what, mean, std, exp_mean, exp_std, n_lab,
                           trig, viol):
    q = len(mean)
    if not arr_close(mean, np.full(q, exp_mean), **DIFF):
        kind = ("fallback_mean_not_zero" if n_lab == 0
                else "fallback_mean_not_label_mean")
        viol.append(Violation(comp, kind, trig,
                              f"{what}: mean {np.asarray(mean).tolist()}, "
                              f"expected {exp_mean}"))
    if std is None:
        return
    std = np.asarray(std, dtype=float)
    if exp_std is None:
        if not np.all(np.isfinite(std) & (std > 0)):
            viol.append(Violation(comp, "fallback_std_not_positive_finite",
                                  trig, f"{what}: std {std.tolist()}"))
    elif not arr_close(std, np.full(q, exp_std), **DIFF):
        kind = ("fallback_std_not_one" if n_lab == 0
                else "fallback_std_not_label_std")
        viol.append(Violation(comp, kind, trig,
                              f"{what}: std {std.tolist()}, expected "
                              f"{exp_std}"))


def _run_wrapper(case):
    est_name = case["estimator"]
    comp = f"{case['component']}[{est_name}]"
    fails, exp_mean, exp_std, n_lab = _fallback_expectation(case)
    labels = [f"component={comp}", f"n_lab={min(n_lab, 3)}"
              + ("+" if n_lab >= 3 else ""),
              "branch=fallback" if fails else "branch=fitted",
              f"missing_label={'nan' if case.get('missing_label') is None else 'number'}"]
    nontrivial = n_lab <= 1 or fails
    X = np.array(case["X"], dtype=float)
    y = np.array(case["y"], dtype=float)
    Xq = np.array(case["Xq"], dtype=float)
    if case.get("xq_int"):
        Xq = Xq.astype(int)
    q = len(Xq)
    yl = y[~np.isnan(y)]
    zero_std = fails and n_lab >= 2 and float(np.std(yl)) == 0.0
    if zero_std:
        labels.append("fallback_label_std_zero")
    trig = ("fit_fails,n_lab=0" if fails and n_lab == 0 else
            "fit_fails,label_std_zero" if zero_std else
            f"fit_fails,n_lab={min(n_lab, 2)}" if fails else
            f"fitted,n_lab={min(n_lab, 3)}")
    viol = []
    ok, reg = guarded(_build, case)
    if not ok:
        return Outcome([exc_violation(comp, reg, trig, "construct")],
                       nontrivial, labels)
    ok, r = guarded(reg.fit, X.copy(), _y_arg(case, y))
    if not ok:
        return Outcome([exc_violation(comp, r, trig, "fit")], nontrivial,
                       labels)
    has_std = _supports_return_std(est_name)

    if case["component"] == "SklearnRegressor":
        ok, m = guarded(reg.predict, Xq.copy())
        if not ok:
            viol.append(exc_violation(comp, m, trig, "predict"))
            return Outcome(viol, nontrivial, labels)
        # scikit-learn's unfitted GPR squeezes a single-row prior mean to 0-d
        m = np.atleast_1d(np.asarray(m))
        if m.shape != (q,):
            viol.append(Violation(comp, "predict_mean_bad_shape", trig,
                                  f"shape {m.shape}, want {(q,)}"))
            return Outcome(viol, nontrivial, labels)
        s = None
        if has_std:
            ok, ms = guarded(reg.predict, Xq.copy(), return_std=True)
            if not ok:
                viol.append(exc_violation(comp, ms, trig,
                                          "predict(return_std=True)"))
                return Outcome(viol, nontrivial, labels)
            if not isinstance(ms, tuple) or len(ms) != 2:
                viol.append(Violation(comp, "predict_bad_structure", trig,
                                      "return_std=True: no 2-tuple"))
                return Outcome(viol, nontrivial, labels)
            m2 = np.atleast_1d(np.asarray(ms[0]))
            s = np.atleast_1d(np.asarray(ms[1]))
            if m2.shape != (q,) or s.shape != (q,):
                viol.append(Violation(comp, "predict_std_bad_shape", trig,
                                      f"{m2.shape} {s.shape}"))
                return Outcome(viol, nontrivial, labels)
            if not arr_close(m, m2, **SAME):
                viol.append(Violation(
                    comp, "predict_mean_depends_on_return_std", trig,
                    f"{m.tolist()} vs {m2.tolist()}"))
            if np.any(s < 0):
                viol.append(Violation(comp, "std_negative", trig,
                                      f"{s.tolist()}"))
        if fails:
            _check_fallback_values(comp, "predict", m, s, exp_mean, exp_std,
                                   n_lab, trig, viol)
        elif not np.all(np.isfinite(m)):
            viol.append(Violation(comp, "mean_not_finite", trig,
                                  f"{m.tolist()}"))
        # scikit-learn's *unfitted* GaussianProcessRegressor.sample_y raises
        # IndexError for a single query row (0-d prior mean) - not the wrapper
        sk_quirk = est_name.startswith("GPR") and n_lab == 0 and q == 1
        if est_name in ("GPR_default", "GPR_rbf_fixed",
                        "NeedsThree") and not sk_quirk:
            _check_sampling(reg, comp, case, Xq, trig, viol, labels)
        return Outcome(viol, nontrivial, labels)

    # SklearnNormalRegressor
    ok, rv = guarded(reg.predict_target_distribution, Xq.copy())
    if not ok:
        viol.append(exc_violation(comp, rv, trig,
                                  "predict_target_distribution"))
        return Outcome(viol, nontrivial, labels)
    ref = _check_predict_coherence(reg, comp, Xq, rv, trig, viol)
    mean, std = ref["mean"], ref["std"]
    kw = getattr(rv, "kwds", {})
    if np.any(std < 0):
        viol.append(Violation(comp, "std_negative", trig, f"{std.tolist()}"))
    std_zero_rows = np.zeros(q, dtype=bool)
    if fails:
        _check_fallback_values(comp, "predict(return_std=True)", mean, std,
                               exp_mean, exp_std, n_lab, trig, viol)
    else:
        # the distribution is the normal with the wrapped estimator's
        # predicted mean and standard deviation
        ok, ms = guarded(reg.estimator_.predict, Xq.copy(), return_std=True)
        if ok:
            em, es = _as_rows(ms[0], q), _as_rows(ms[1], q)
            # rows where the wrapped estimator itself reports std == 0 (e.g.
            # GPR clipping a negative variance) get their own trigger
            std_zero_rows = es == 0
            if std_zero_rows.any():
                labels.append("estimator_std_zero")
            for rows, rtrig in ((~std_zero_rows, trig),
                                (std_zero_rows, "estimator_std_zero")):
                if not rows.any():
                    continue
                if not arr_close(mean[rows], em[rows], **DIFF):
                    viol.append(Violation(
                        comp, "mean_differs_from_estimator", rtrig,
                        f"{mean.tolist()} vs estimator {em.tolist()}"))
                if not arr_close(std[rows], es[rows], **DIFF):
                    viol.append(Violation(
                        comp, "std_differs_from_estimator", rtrig,
                        f"{std.tolist()} vs estimator {es.tolist()}"))
        else:
            viol.append(exc_violation(comp, ms, trig,
                                      "estimator_.predict(return_std=True)"))
    if (fails or n_lab >= 2) and not zero_std:
        for rows, rtrig in ((~std_zero_rows, trig),
                            (std_zero_rows, "estimator_std_zero")):
            if rows.any() and not np.all(np.isfinite(std[rows])
                                         & (std[rows] >= 0)):
                viol.append(Violation(comp, "std_not_finite", rtrig,
                                      f"std {std.tolist()}"))
    loc = _as_rows(kw.get("loc", np.nan), q)
    scale = _as_rows(kw.get("scale", np.nan), q)
    if bool(np.all(np.isfinite(loc)) and np.all(np.isfinite(scale))
            and np.all(scale > 0)):
        _check_sampling(reg, comp, case, Xq, trig, viol, labels)
    else:
        labels.append("sample_y=skipped_invalid_params")
    return Outcome(viol, nontrivial, labels)


def run_case(case):
    if case["component"] in KERNEL:
        return _run_kernel(case)
    return _run_wrapper(case)
