"""C02 - returned utilities agree with the returned selection."""
import numpy as np
from hypothesis import strategies as st

from .. import gen, poolreg, poolrun
from ..common import Outcome, Violation, exc_violation
from . import c01

PROPERTY_ID = "C02"
TECHNIQUE = ("Hypothesis-generated pool queries with return_utilities=True "
             "checked against a per-step NaN-pattern / arg-max validity "
             "predicate computed from the reference candidate set")
RULE = (
    "Same generator as C01 (registry entry x data set x label pattern x "
    "candidate mode x batch size x seed) with return_utilities=True. "
    "Distinct = case hash. Non-trivial = batch of >= 2 selected samples with "
    "a tie at the maximum of some utility row, or a restricted candidate "
    "set (some unlabeled sample is not a candidate).")
RULE += (" Further generated dimensions (added while closing seeded "
         "changes): " + 'alternative constructor configurations; large-scale sample weights; n_jobs incl. the default -1; GaussianNB zero-variance region excluded by construction (counted)' + ".")
ASSUMPTIONS = [
    "the reference candidate set is computed from the case without "
    "skactiveml",
    "-inf is a number (documented for SubSamplingWrapper / DropQuery / "
    "TypiClust as 'candidate, not selectable now')",
    "selection kind per strategy (maximisation vs. sampling) is read from "
    "the code once and stored in the registry",
]
PROFILE = {
    "quick": dict(examples=3500, shards=16, budget_s=80),
    "thorough": dict(examples=40000, shards=16, budget_s=1100),
}


@st.composite
def _case(draw, tier):
    name = draw(st.sampled_from(c01.all_names()))
    kw = {}
    if name.startswith("Parallel"):
        kw["batch_sizes"] = [1]
    case = draw(gen.pool_case([name], vary_model=True, use_alt=True, **kw))
    return case


def case_strategy(tier, shard=0, nshards=1):
    return _case(tier)


def check_utilities(comp, q, u, case, sel):
    """-> (violations, info)"""
    viol = []
    _, cset, ncols = poolrun.expected_k(case)
    rc = poolrun.root_cause(case)
    try:
        u = np.asarray(u, dtype=float)
    except Exception as e:
        return [Violation(comp, "utilities_not_numeric", "any", repr(e))], {}
    q = np.asarray(q).reshape(-1).astype(int)
    if u.ndim != 2 or u.shape != (len(q), ncols):
        if u.ndim == 2 and u.shape[1] == ncols:
            what = ("more_rows_than_indices" if u.shape[0] > len(q)
                    else "fewer_rows_than_indices")
        else:
            what = "columns"
        viol.append(Violation(
            comp, "utilities_bad_shape", f"{rc + '&' if rc else ''}{what}",
            f"shape {u.shape} expected {(len(q), ncols)}"))
        return viol, {}
    cand = set(cset)
    tie = False
    for i in range(len(q)):
        row = u[i]
        selectable = cand - set(int(x) for x in q[:i])
        num = set(np.flatnonzero(~np.isnan(row)).tolist())
        if num != selectable:
            extra = sorted(num - selectable)
            missing = sorted(selectable - num)
            earlier = sorted(set(extra) & set(int(x) for x in q[:i]))
            if missing:
                kind = "nan_at_selectable_candidate"
            elif earlier:
                kind = "number_at_earlier_pick"
            else:
                kind = "number_at_non_candidate"
            viol.append(Violation(
                comp, kind, rc or f"step>0={i > 0}",
                f"row {i}: numbers at {sorted(num)} selectable "
                f"{sorted(selectable)} picks {q.tolist()}"))
            break
        qi = int(q[i])
        if not (0 <= qi < ncols) or np.isnan(row[qi]):
            viol.append(Violation(comp, "selected_entry_is_nan",
                                  rc or f"step>0={i > 0}",
                                  f"row {i} pick {qi}"))
            break
        m = np.nanmax(row)
        if np.sum(row == m) >= 2:
            tie = True
        if sel == "max":
            if row[qi] != m:
                viol.append(Violation(
                    comp, "selected_not_row_maximum",
                    rc or f"step>0={i > 0}",
                    f"row {i}: u[pick {qi}]={row[qi]} max={m}"))
                break
        else:
            if not (row[qi] > 0 or row[qi] == m):
                viol.append(Violation(
                    comp, "selected_has_no_mass", rc or f"step>0={i > 0}",
                    f"row {i}: u[pick {qi}]={row[qi]}"))
                break
    return viol, {"tie": tie}


def run_case(case):
    comp = case["entry"]
    ent = poolreg.base_entry(comp)
    trig = poolrun.input_class(case)
    k, cset, _ = poolrun.expected_k(case)
    yid = case["yid"]
    unl = [i for i in range(len(yid)) if yid[i] is None]
    restricted = case["cand"]["mode"] == "idx" and sorted(cset) != unl
    labels = [f"component={comp}", f"cand={case['meta']['cand_mode']}",
              f"input={trig}", f"restricted={restricted}"]
    ok, res, ctx = poolrun.run_query(case, True)
    if not ok:
        return Outcome([exc_violation(comp, res, poolrun.exc_trigger(case),
                                      "query")], False, labels)
    try:
        q, u = res
    except Exception:
        return Outcome([Violation(comp, "result_not_a_pair", "any",
                                  repr(res)[:200])], False, labels)
    viol, info = check_utilities(comp, q, u, case, ent["sel"])
    try:
        nq = len(np.asarray(q).reshape(-1))
    except Exception:
        nq = 0
    nontrivial = (nq >= 2 and info.get("tie", False)) or (
        restricted and len(cset) >= 2)
    labels.append(f"tie={info.get('tie')}")
    labels.append(f"k={'1' if nq <= 1 else '2+'}")
    return Outcome(viol, nontrivial, labels)
