"""Hypothesis strategies shared by the pool-strategy properties."""
import numpy as np
from hypothesis import strategies as st

from . import poolreg


def _round2(x):
    return round(float(x), 2)


@st.composite
def feature_matrix(draw, n, d, regime=None):
    regime = regime or draw(st.sampled_from(
        ["continuous", "continuous", "lattice", "lattice", "constant_col",
         "all_equal"] if n > 2 else ["continuous", "lattice"]))
    if regime == "continuous":
        rows = [[_round2(draw(st.floats(-4, 4))) for _ in range(d)]
                for _ in range(n)]
    elif regime == "lattice":
        rows = [[float(draw(st.integers(-2, 2))) for _ in range(d)]
                for _ in range(n)]
    elif regime == "constant_col":
        rows = [[_round2(draw(st.floats(-4, 4))) for _ in range(d)]
                for _ in range(n)]
        c = draw(st.integers(0, d - 1))
        v = float(draw(st.integers(-2, 2)))
        for r in rows:
            r[c] = v
    else:  # all rows equal
        row = [float(draw(st.integers(-2, 2))) for _ in range(d)]
        rows = [list(row) for _ in range(n)]
    return rows, regime


@st.composite
def label_pattern(draw, n, K, task, min_labeled=0, max_labeled=None):
    """-> (yid list with None for missing, pattern name)"""
    max_labeled = n - 1 if max_labeled is None else max_labeled
    options = sorted({0, 1, 2, n // 2, n - 2, n - 1})
    options = [o for o in options if min_labeled <= o <= max_labeled]
    n_lab = draw(st.sampled_from(options))
    perm = draw(st.permutations(list(range(n))))
    lab_idx = set(perm[:n_lab])
    if task == "reg":
        yid = [(_round2(draw(st.floats(-3, 3))) if i in lab_idx else None)
               for i in range(n)]
        return yid, f"nlab={n_lab}"
    mode = draw(st.sampled_from(["any", "any", "any", "single_class",
                                 "unobserved_class"]))
    if mode == "single_class":
        c = draw(st.integers(0, K - 1))
        yid = [c if i in lab_idx else None for i in range(n)]
    elif mode == "unobserved_class" and K >= 2:
        yid = [draw(st.integers(0, K - 2)) if i in lab_idx else None
               for i in range(n)]
    else:
        yid = [draw(st.integers(0, K - 1)) if i in lab_idx else None
               for i in range(n)]
    return yid, f"nlab={n_lab}"


@st.composite
def candidates(draw, X, yid, ent, allow_feat=True, force=None,
               wrapper=False, unsorted_idx=False, wrapper_arb_idx=False):
    n = len(yid)
    unl = [i for i in range(n) if yid[i] is None]
    modes = ["none", "idx_unl", "idx_unl"]
    if ent["arb_idx"] and (not wrapper or wrapper_arb_idx):
        modes.append("idx_any")
    if ent["feat"] and allow_feat:
        modes += ["feat", "feat"]
    mode = force or draw(st.sampled_from(modes))
    if mode == "none":
        return {"mode": "none"}, "none"
    def messy(sub):
        """index candidates are an arbitrary integer array-like: unsorted and
        with repeated entries (the library de-duplicates them)"""
        if wrapper or not unsorted_idx or draw(st.integers(0, 3)) > 0:
            return sub
        extra = [sub[draw(st.integers(0, len(sub) - 1))]
                 for _ in range(draw(st.integers(0, 3)))]
        return list(draw(st.permutations(sub + extra)))

    if mode == "idx_unl":
        k = draw(st.integers(1, len(unl)))
        sub = sorted(draw(st.permutations(unl))[:k])
        return {"mode": "idx", "value": messy(sub)}, "idx_unl"
    if mode == "idx_any":
        k = draw(st.integers(1, n))
        sub = sorted(draw(st.permutations(list(range(n))))[:k])
        return {"mode": "idx", "value": messy(sub)}, "idx_any"
    # feature rows: copies of rows, perturbed copies or fresh points
    k = draw(st.integers(1, min(n, 8)))
    rows = []
    d = len(X[0])
    for _ in range(k):
        kind = draw(st.sampled_from(["copy", "copy", "perturbed", "fresh"]))
        if kind == "fresh":
            rows.append([_round2(draw(st.floats(-4, 4))) for _ in range(d)])
        else:
            base = list(X[draw(st.integers(0, n - 1))])
            if kind == "perturbed":
                j = draw(st.integers(0, d - 1))
                base[j] = _round2(base[j] + draw(st.sampled_from(
                    [0.01, -0.01, 0.5, -0.5])))
            rows.append(base)
    return {"mode": "feat", "value": rows}, "feat"


def n_candidates(cand, yid):
    if cand["mode"] == "none":
        return sum(1 for v in yid if v is None)
    if cand["mode"] == "idx":
        return len(set(cand["value"]))
    return len(cand["value"])


def _gnb_degenerate(X, yid, extra_rows=None):
    """True iff scikit-learn's GaussianNB, fitted on the labeled rows,
    itself returns rows that are not probability vectors (neither NaN, which
    SklearnClassifier repairs, nor summing to one) for some row of X or of
    `extra_rows`: zero or almost zero variance of a class together with a
    query row away from it (input region of known finding KF-C11-6)."""
    import warnings
    lab = [i for i in range(len(X)) if yid[i] is not None]
    if len({yid[i] for i in lab}) < 2:
        return False
    from sklearn.naive_bayes import GaussianNB
    Xa = np.array(X, dtype=float).reshape(len(X), -1)
    rows = Xa if not extra_rows else np.vstack(
        [Xa, np.array(extra_rows, dtype=float).reshape(-1, Xa.shape[1])])
    with warnings.catch_warnings(), np.errstate(all="ignore"):
        warnings.simplefilter("ignore")
        try:
            P = GaussianNB().fit(Xa[lab], [yid[i] for i in lab]) \
                .predict_proba(rows)
        except Exception:
            return True
    bad = ~np.isnan(P).any(axis=1) & (np.abs(P.sum(axis=1) - 1) > 1e-6)
    return bool(bad.any())


def gnb_zero_variance(case):
    """True iff the case trains GaussianNB in the input region of known
    finding KF-C11-6 (see _gnb_degenerate)."""
    ent = poolreg.base_entry(case["entry"])
    eff = case.get("opts", {}).get("model_key") or (
        ent["model"][1] if ent["model"] and ent["model"][0] == "clf"
        else None)
    cand = case.get("cand") or {}
    extra = cand.get("value") if cand.get("mode") == "feat" else None
    return eff == "gnb" and _gnb_degenerate(case["X"], case["yid"], extra)


def _wrapper_takes_labeled(name):
    """Index candidates that are already labeled are passed through by the
    wrappers that keep the whole training set (not by
    SubSamplingWrapper(exclude_non_subsample=True), which is documented for
    unlabeled candidates)."""
    if not poolreg.is_wrapper(name):
        return False
    return not poolreg.entry_of(name)["init"].get("exclude_non_subsample")


@st.composite
def pool_case(draw, names, allow_feat=True, max_n=None, force_cand=None,
              encodings=("float_nan",), batch_sizes=None, min_unlabeled=1,
              fixed=None, vary_model=False, use_alt=False):
    name = draw(st.sampled_from(names))
    ent = poolreg.base_entry(name)
    fixed = fixed or {}
    task = ent["task"]
    if task == "any":
        task = fixed.get("task") or draw(st.sampled_from(
            ["clf", "clf", "reg"]))
    K = fixed.get("K") or draw(st.sampled_from(list(ent["K"])))
    hi = min(ent["max_n"], max_n or ent["max_n"])
    n = draw(st.integers(max(ent["min_n"], 2), hi))
    d = fixed.get("d") or draw(st.integers(1, 3))
    X, regime = draw(feature_matrix(n, d))
    yid, _ = draw(label_pattern(n, K, task, max_labeled=n - min_unlabeled))
    cand, cmode = draw(candidates(X, yid, ent, allow_feat=allow_feat,
                                  force=force_cand,
                                  wrapper=poolreg.is_wrapper(name),
                                  unsorted_idx=use_alt,
                                  wrapper_arb_idx=_wrapper_takes_labeled(
                                      name)))
    if cand["mode"] == "feat" and not poolreg.is_wrapper(name) \
            and ent["cls"] not in poolreg.NEEDS_UNLABELED \
            and draw(st.integers(0, 2)) == 0:
        # candidates given as feature rows do not need an unlabeled sample
        # in (X, y): a completely labeled training set is a valid input
        if task == "reg":
            yid = [v if v is not None else _round2(draw(st.floats(-3, 3)))
                   for v in yid]
        else:
            yid = [v if v is not None else draw(st.integers(0, K - 1))
                   for v in yid]
    nc = n_candidates(cand, yid)
    if batch_sizes is None:
        bs = draw(st.sampled_from(sorted({1, 2, 3, nc, nc + 1, nc + 5})))
    else:
        bs = draw(st.sampled_from(batch_sizes))
    enc = draw(st.sampled_from(list(encodings)))
    if task == "reg" and enc not in poolreg.REG_SENTINELS:
        enc = "float_nan"
    opts = {"gamma": draw(st.sampled_from([0.3, 1.0, 3.0]))}
    if vary_model and ent["model"] and ent["model"][0] == "clf" and \
            ent["model"][1] == "pwc" and ent["cls"] in poolreg.ANY_CLF:
        opts["model_key"] = draw(st.sampled_from(
            ["pwc", "pwc", "gnb", "lr", "tree_clf", "pwc_default",
             "pwc_prior"]))
    excluded = None
    eff = opts.get("model_key") or (
        ent["model"][1] if ent["model"] and ent["model"][0] == "clf"
        else None)
    if eff == "gnb":
        if _gnb_degenerate(X, yid, cand["value"] if cand["mode"] == "feat"
                           else None):
            # known finding KF-C11-6 (recorded for C11, where it belongs):
            # scikit-learn's GaussianNB on (almost) zero-variance training
            # rows returns rows that do not sum to one for query rows away
            # from them and SklearnClassifier passes them on; excluded by
            # construction here so that the search continues (counted as
            # "excluded_by_construction=...")
            opts["model_key"] = "pwc"
            excluded = "KF-C11-6:gnb_zero_variance"
    if use_alt and ent["alt"] and not poolreg.is_wrapper(name) and \
            draw(st.integers(0, 2)) == 0:
        # alternative constructor configuration (dict / array valued
        # parameters, other integration methods, precomputed kernels)
        opts["alt_init"] = draw(st.integers(0, len(ent["alt"]) - 1))
    if ent["model"] and ent["model"][0] == "discriminator":
        opts["disc_preconfigured"] = draw(st.booleans())
    if poolreg.is_wrapper(name):
        opts["max_candidates_int"] = draw(st.integers(1, 6))
        opts["max_candidates_float"] = draw(st.sampled_from(
            [0.1, 0.3, 0.5, 0.8, 1.0]))
        # -1 is the constructor default: as many chunks as the machine has
        # cores, i.e. usually more than there are candidates here
        opts["n_jobs"] = draw(st.sampled_from([1, 2, 3, 5, -1]))
    excl = poolreg.is_wrapper(name) and poolreg.entry_of(name)["init"].get(
        "exclude_non_subsample")
    if ent["sample_weight"] and not excl and draw(st.booleans()):
        # ordinary weights, or weights on a large scale (e.g. counts of
        # aggregated observations): kernel frequency estimates in the hundreds
        scale = draw(st.sampled_from([1, 1, 1, 1, 100, 1000]))
        opts["sample_weight"] = [
            _round2(draw(st.floats(0.1, 3))) * scale for _ in range(n)]
    # how the array-like arguments are handed over (ndarray / nested lists /
    # integer-typed feature matrix where all features are integral)
    opts["arg_style"] = draw(st.sampled_from(
        ["ndarray", "ndarray", "ndarray", "list", "int_X"]))
    case = dict(entry=name, X=X, yid=yid, K=K, task=task, enc=enc,
                cand=cand, batch_size=bs,
                seed=draw(st.integers(0, 2**31 - 1)), opts=opts,
                meta={"regime": regime, "cand_mode": cmode})
    if excluded:
        case["meta"]["excluded"] = excluded
    return case


def shard_names(names, shard, nshards, weights=None):
    """Partition the registry over shards (round robin) so that every shard
    concentrates on a few components; all components are covered when
    nshards >= 1."""
    names = list(names)
    if nshards <= 1:
        return names
    sel = [nm for i, nm in enumerate(names) if i % nshards == shard % nshards]
    return sel or names
