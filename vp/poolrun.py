"""Running a pool query described by a case and validating the result
(shared by C01, C02, C05, C06, C08, C09, C14, C20)."""
import numpy as np

from . import poolreg
from .common import Violation, exc_violation, guarded


def input_class(case):
    """Coarse predicate over the *input* used as the trigger part of
    violation signatures."""
    yid = case["yid"]
    nlab = sum(1 for v in yid if v is not None)
    cand = case["cand"]
    X = case["X"]
    if cand["mode"] == "feat":
        rows = [tuple(r) for r in cand["value"]]
    elif cand["mode"] == "idx":
        rows = [tuple(X[i]) for i in cand["value"]]
    else:
        rows = [tuple(X[i]) for i in range(len(yid)) if yid[i] is None]
    parts = []
    if nlab == 0:
        parts.append("cold_start")
    if len(set(rows)) < len(rows):
        parts.append("dup_candidates")
    elif len(set(tuple(r) for r in X)) < len(X):
        parts.append("dup_points")
    return "&".join(parts) if parts else "general"


def n_distinct_rows(rows):
    return len(set(tuple(float(v) + 0.0 for v in r) for r in rows))


def root_cause(case):
    """Component-specific predicate over the input that names the known
    root cause of a deviation (used as trigger); '' if none applies."""
    name = case["entry"]
    yid = case["yid"]
    nlab = sum(1 for v in yid if v is not None)
    k, cset, _ = expected_k(case)
    if name == "TypiClust":
        if n_distinct_rows(case["X"]) < nlab + k:
            return "fewer_distinct_points_than_clusters"
        unl = [i for i in range(len(yid)) if yid[i] is None]
        if sorted(cset) != unl:
            return "candidates_restricted"
        return ""
    if name.startswith("RegressionTreeBasedAL"):
        # acquisitions are allocated to tree leaves from the unlabeled
        # samples of X, independently of how many candidates a leaf holds
        return "" if nlab <= 1 else "leaf_allocation"
    if name.startswith("SubSampling"):
        e = poolreg.entry_of(name)
        parts = []
        if e["init"].get("exclude_non_subsample"):
            if case["cand"]["mode"] == "feat" and nlab == 0:
                parts.append("exclude&cand=feat&cold_start")
        return "&".join(parts)
    return ""


def exc_trigger(case):
    rc = root_cause(case)
    return rc if rc else f"cand={case['cand']['mode']}&{input_class(case)}"


def prepare(case, seed=None, defaults=False):
    data = poolreg.build_data(case)
    qs, qk = poolreg.build_strategy(case["entry"], data, case, seed=seed,
                                    defaults=defaults)
    cand = poolreg.build_candidates(case)
    return data, qs, qk, cand


def styled_args(case, data):
    """X and y in the container / dtype the case asks for (array-likes are
    documented everywhere; results must not depend on the container)."""
    style = case.get("opts", {}).get("arg_style", "ndarray")
    X, y = data["X"].copy(), data["y"].copy()
    if style == "list":
        return X.tolist(), y.tolist()
    if style == "int_X" and np.all(X == np.round(X)):
        return X.astype(int), y
    return X, y


def run_query(case, return_utilities, seed=None, defaults=False,
              batch_size=None, prepared=None):
    """-> (ok, result_or_exception, ctx)"""
    data, qs, qk, cand = prepared or prepare(case, seed, defaults)
    bs = case["batch_size"] if batch_size is None else batch_size
    kwargs = dict(qk)
    kwargs.update(candidates=cand, batch_size=bs,
                  return_utilities=return_utilities)
    X_arg, y_arg = styled_args(case, data)
    if isinstance(kwargs.get("candidates"), np.ndarray) and \
            case.get("opts", {}).get("arg_style") == "list":
        kwargs["candidates"] = kwargs["candidates"].tolist()
    cnd = kwargs.get("candidates")
    if (isinstance(X_arg, np.ndarray) and X_arg.dtype.kind == "i"
            and isinstance(cnd, np.ndarray) and cnd.ndim == 2
            and np.all(cnd == np.round(cnd))):
        # feature-row candidates of an integer-typed pool are integer-typed
        # as well (third-party estimators, e.g. scikit-learn's mixture
        # score_samples, are not dtype-invariant)
        kwargs["candidates"] = cnd.astype(int)
    ok, res = guarded(qs.query, X_arg, y_arg, **kwargs)
    ctx = dict(data=data, qs=qs, qk=qk, cand=cand)
    return ok, res, ctx


def expected_k(case):
    cset, ncols = poolreg.candidate_set(case, None)
    return min(case["batch_size"], len(cset)), cset, ncols


def check_indices(comp, q, case, trig, k_expected=None, allow_fewer=False):
    """Validity predicate of C01 on the returned indices. -> violations"""
    viol = []
    k, cset, ncols = expected_k(case)
    if k_expected is not None:
        k = k_expected
    try:
        qa = np.asarray(q)
    except Exception as e:  # ragged
        return [Violation(comp, "result_not_array", trig, repr(e))], None
    if qa.ndim != 1:
        viol.append(Violation(comp, "indices_not_1d", "any",
                              f"shape {qa.shape}"))
        qa = qa.reshape(-1)
    if qa.size and qa.dtype.kind not in "iu":
        viol.append(Violation(comp, "indices_not_integer", "any",
                              f"dtype {qa.dtype}"))
        try:
            qa = qa.astype(int)
        except Exception:
            return viol, None
    qa = qa.astype(int)
    bs_gt = case["batch_size"] > len(cset)
    if len(qa) != k and not (allow_fewer and len(qa) <= k):
        viol.append(Violation(
            comp, "wrong_batch_length",
            "fewer" if len(qa) < k else "more",
            f"len {len(qa)} expected {k} (batch_size={case['batch_size']},"
            f" n_candidates={len(cset)})"))
    if len(set(qa.tolist())) != len(qa):
        viol.append(Violation(comp, "duplicate_index", trig,
                              f"indices {qa.tolist()}"))
    outside = [int(i) for i in qa.tolist() if int(i) not in set(cset)]
    if outside:
        yid = case["yid"]
        lab = [i for i in outside
               if case["cand"]["mode"] != "feat" and 0 <= i < len(yid)
               and yid[i] is not None]
        kind = ("labeled_non_candidate_selected" if lab
                else "non_candidate_selected")
        viol.append(Violation(comp, kind, f"cand={case['cand']['mode']}",
                              f"indices {qa.tolist()} candidates {cset}"))
    return viol, qa
