"""Optional coverage-guided engine (atheris / libFuzzer) for the byte-friendly
utility properties C16 and C18, thorough tier only.

The same structured generator (case_strategy) and the same oracle (run_case)
are driven through Hypothesis' fuzz_one_input hook, so libFuzzer mutates the
byte string that Hypothesis decodes into a case. The Hypothesis campaign stays
the deciding engine; this one adds coverage feedback over the Python-level
dispatch code of skactiveml.utils.

Run as a subprocess:  python -m vp.fuzz_atheris <PID> <runs> <seed> <outdir>
"""
import json
import os
import subprocess
import sys
import time

HERE = os.path.dirname(os.path.dirname(os.path.abspath(__file__)))


def child(pid, runs, seed, outdir):
    sys.path.insert(0, os.path.join(HERE, ".deps"))
    import atheris
    with atheris.instrument_imports(include=["skactiveml.utils"]):
        import skactiveml.utils  # noqa
    import importlib
    from hypothesis import given, settings, HealthCheck
    from . import runner, common
    mod = importlib.import_module(f"vp.props.{pid.lower()}")
    known = runner.load_findings(pid)
    stats = {"evaluations": 0, "nontrivial": 0, "known_hits": 0}
    seen = set()

    def flush():
        stats["distinct_nontrivial"] = len(seen)
        common.dump_json(stats, os.path.join(outdir, "stats.json"))

    @settings(database=None, deadline=None,
              suppress_health_check=list(HealthCheck))
    @given(mod.case_strategy("thorough", 0, 1))
    def test(case):
        out = mod.run_case(case)
        stats["evaluations"] += 1
        if out.nontrivial:
            seen.add(common.case_hash(case))
        if stats["evaluations"] % 500 == 0:
            flush()
        for v in out.violations:
            if runner.match_known(v.signature, known) is not None:
                stats["known_hits"] += 1
                continue
            path = os.path.join(outdir, f"{pid}-atheris-"
                                        f"{common.case_hash(case)}.json")
            common.dump_json({"property": pid, "case": case,
                              "violation": v.to_json(),
                              "engine": "atheris"}, path)
            flush()
            raise AssertionError(v.signature)

    corpus = os.path.join(outdir, "corpus")
    os.makedirs(corpus, exist_ok=True)
    flush()
    atheris.Setup([sys.argv[0], f"-runs={runs}", f"-seed={seed or 1}",
                   "-max_len=4096", "-print_final_stats=0",
                   f"-artifact_prefix={outdir}/", corpus],
                  test.hypothesis.fuzz_one_input)
    try:
        atheris.Fuzz()
    finally:
        flush()


def extra(pid, tier, seed, runs=200000, timeout=900):
    runs = int(os.environ.get("VERIF_ATHERIS_RUNS", runs))
    """Called by the runner (thorough tier). Returns the dict merged into the
    evidence; never raises."""
    if tier != "thorough":
        return {}
    import shutil
    import tempfile
    if not os.path.isdir(os.path.join(HERE, ".deps", "atheris")):
        return {"atheris": "not installed (./setup.sh installs it offline); "
                           "Hypothesis only"}
    outdir = tempfile.mkdtemp(prefix=f"atheris_{pid}_", dir=os.path.join(
        HERE, "replays", "found") if os.path.isdir(os.path.join(
            HERE, "replays", "found")) else None)
    t0 = time.monotonic()
    try:
        p = subprocess.run(
            [sys.executable, "-m", "vp.fuzz_atheris", pid, str(runs),
             str(seed), outdir], cwd=HERE, capture_output=True, text=True,
            timeout=timeout)
        rc = p.returncode
        tail = (p.stderr or "")[-400:]
    except subprocess.TimeoutExpired:
        rc, tail = -9, "time budget reached (inconclusive, not a verdict)"
    res = {"engines": ["atheris"], "atheris": {"returncode": rc,
                                               "wall_s": round(
                                                   time.monotonic() - t0, 1)}}
    try:
        st = json.load(open(os.path.join(outdir, "stats.json")))
        res["atheris"].update(st)
        res["evaluations"] = int(st.get("evaluations", 0))
    except Exception:
        res["atheris"]["note"] = "no statistics written: " + tail
    fails = []
    found_dir = os.path.join(HERE, "replays", "found")
    os.makedirs(found_dir, exist_ok=True)
    for name in sorted(os.listdir(outdir)):
        if name.startswith(f"{pid}-atheris-") and name.endswith(".json"):
            dst = os.path.join(found_dir, name)
            shutil.copy(os.path.join(outdir, name), dst)
            v = json.load(open(dst))["violation"]
            fails.append({"replay": dst, "violation": v,
                          "source": "atheris"})
    res["failures"] = fails
    shutil.rmtree(outdir, ignore_errors=True)
    return res


if __name__ == "__main__":
    child(sys.argv[1].upper(), int(sys.argv[2]), int(sys.argv[3]),
          sys.argv[4])
