"""Registry of the package's classifiers and regressors.

Everything is built from a plain (JSON-serialisable) config dict so that a
Hypothesis case never contains a live object:

    cfg = {"kind": "ParzenWindowClassifier",
           "classes": [7, 3, 12] | None,
           "missing_label": nan | -1 | None | "zz",
           "cost_matrix": [[...], ...] | None,
           "random_state": 3,
           "params": {...kind specific, see the builders below...}}

`build(cfg)` returns a fresh, unfitted object.  `label(cfg)` is the component
name used in violation signatures / class distributions.  `make_y` turns index
coded labels (-1 = missing) into the array the user would pass.

`check_complete()` compares the registry with the package's `__all__` lists
(a class added to the package later must not silently escape the checks).
"""
import copy
import math

import numpy as np

from .common import HarnessError

# ------------------------------------------------------ sklearn estimators --
# name -> (import path, class name, defaults, capabilities)
SK_CLASSIFIERS = {
    "GaussianNB": dict(
        mod="sklearn.naive_bayes", defaults={},
        sample_weight=True, partial_fit=True, random_state=False),
    "LogisticRegression": dict(
        mod="sklearn.linear_model", defaults={"max_iter": 200},
        sample_weight=True, partial_fit=False, random_state=True),
    "DecisionTreeClassifier": dict(
        mod="sklearn.tree", defaults={},
        sample_weight=True, partial_fit=False, random_state=True),
    "SGDClassifier": dict(
        mod="sklearn.linear_model",
        defaults={"loss": "log_loss", "max_iter": 300, "tol": 1e-3},
        sample_weight=True, partial_fit=True, random_state=True),
    "KNeighborsClassifier": dict(
        mod="sklearn.neighbors", defaults={"n_neighbors": 1},
        sample_weight=False, partial_fit=False, random_state=False),
}
SK_REGRESSORS = {
    "LinearRegression": dict(
        mod="sklearn.linear_model", defaults={},
        sample_weight=True, return_std=False, random_state=False),
    "DecisionTreeRegressor": dict(
        mod="sklearn.tree", defaults={},
        sample_weight=True, return_std=False, random_state=True),
    "BayesianRidge": dict(
        mod="sklearn.linear_model", defaults={},
        sample_weight=True, return_std=True, random_state=False),
    "GaussianProcessRegressor": dict(
        mod="sklearn.gaussian_process", defaults={},
        sample_weight=False, return_std=True, random_state=True),
}

CLASSIFIER_KINDS = [
    "ParzenWindowClassifier", "MixtureModelClassifier", "SklearnClassifier",
    "SlidingWindowClassifier", "AnnotatorEnsembleClassifier",
    "AnnotatorLogisticRegression",
]
REGRESSOR_KINDS = [
    "NICKernelRegressor", "NadarayaWatsonRegressor", "SklearnRegressor",
    "SklearnNormalRegressor",
]
MULTI_ANNOTATOR_KINDS = ["AnnotatorEnsembleClassifier",
                         "AnnotatorLogisticRegression"]
CLASS_FREQUENCY_KINDS = ["ParzenWindowClassifier", "MixtureModelClassifier"]


def _import(mod, name):
    import importlib
    return getattr(importlib.import_module(mod), name)


def build_sklearn(spec, table=None):
    """spec = {"name": "GaussianNB", "params": {...}} -> unfitted estimator."""
    name = spec["name"]
    if table is None:
        table = SK_CLASSIFIERS if name in SK_CLASSIFIERS else SK_REGRESSORS
    if name not in table:
        raise HarnessError(f"unknown scikit-learn estimator {name!r}")
    info = table[name]
    params = dict(info["defaults"])
    params.update(spec.get("params") or {})
    est = _import(info["mod"], name)(**params)
    if spec.get("prefit") is not None:
        # an estimator the caller has trained already before wrapping it
        import warnings
        pf = spec["prefit"]
        with warnings.catch_warnings():
            warnings.simplefilter("ignore")
            est.fit(np.array(pf["X"], dtype=float), np.array(pf["y"]))
    return est


def sk_info(name):
    if name in SK_CLASSIFIERS:
        return SK_CLASSIFIERS[name]
    if name in SK_REGRESSORS:
        return SK_REGRESSORS[name]
    raise HarnessError(f"unknown scikit-learn estimator {name!r}")


def build_mixture(spec):
    """spec = None | {"type": "GM"|"BGM", "n_components": k,
    "random_state": s, "prefit": rows|None}."""
    if spec is None:
        return None
    from sklearn.mixture import BayesianGaussianMixture, GaussianMixture
    cls = {"GM": GaussianMixture, "BGM": BayesianGaussianMixture}[spec["type"]]
    mm = cls(n_components=int(spec["n_components"]),
             random_state=spec.get("random_state", 0))
    if spec.get("prefit") is not None:
        import warnings
        with warnings.catch_warnings():
            warnings.simplefilter("ignore")
            mm.fit(np.array(spec["prefit"], dtype=float))
    return mm


def _common(cfg):
    kw = {}
    if "classes" in cfg:
        kw["classes"] = (None if cfg["classes"] is None
                         else list(cfg["classes"]))
    if "missing_label" in cfg:
        kw["missing_label"] = cfg["missing_label"]
    if cfg.get("cost_matrix") is not None:
        kw["cost_matrix"] = [list(r) for r in cfg["cost_matrix"]]
    if "random_state" in cfg:
        kw["random_state"] = cfg["random_state"]
    return kw


def build(cfg):
    """Fresh unfitted object for a config dict."""
    kind = cfg["kind"]
    p = copy.deepcopy(cfg.get("params") or {})
    if kind == "ParzenWindowClassifier":
        from skactiveml.classifier import ParzenWindowClassifier
        return ParzenWindowClassifier(
            n_neighbors=p.get("n_neighbors"),
            metric=p.get("metric", "rbf"),
            metric_dict=p.get("metric_dict"),
            class_prior=p.get("class_prior", 0.0),
            **_common(cfg))
    if kind == "MixtureModelClassifier":
        from skactiveml.classifier import MixtureModelClassifier
        return MixtureModelClassifier(
            mixture_model=build_mixture(p.get("mixture")),
            weight_mode=p.get("weight_mode", "responsibilities"),
            class_prior=p.get("class_prior", 0.0),
            **_common(cfg))
    if kind == "SklearnClassifier":
        from skactiveml.classifier import SklearnClassifier
        return SklearnClassifier(
            estimator=build_sklearn(p["estimator"], SK_CLASSIFIERS),
            **_common(cfg))
    if kind == "SlidingWindowClassifier":
        from skactiveml.classifier import SlidingWindowClassifier
        return SlidingWindowClassifier(
            estimator=build(p["estimator"]),
            window_size=p.get("window_size"),
            only_labeled=bool(p.get("only_labeled", False)),
            **_common(cfg))
    if kind == "AnnotatorEnsembleClassifier":
        from skactiveml.classifier.multiannotator import (
            AnnotatorEnsembleClassifier)
        ests = [(f"m{i}", build(c)) for i, c in enumerate(p["estimators"])]
        return AnnotatorEnsembleClassifier(
            estimators=ests, voting=p.get("voting", "hard"), **_common(cfg))
    if kind == "AnnotatorLogisticRegression":
        from skactiveml.classifier.multiannotator import (
            AnnotatorLogisticRegression)
        kw = {k: p[k] for k in (
            "n_annotators", "tol", "max_iter", "fit_intercept",
            "annot_prior_full", "annot_prior_diag", "weights_prior", "solver",
            "solver_dict") if k in p}
        return AnnotatorLogisticRegression(**kw, **_common(cfg))
    if kind in ("NICKernelRegressor", "NadarayaWatsonRegressor"):
        from skactiveml import regressor
        kw = {k: p[k] for k in ("metric", "metric_dict", "mu_0", "kappa_0",
                                "sigma_sq_0", "nu_0") if k in p}
        for k in ("missing_label", "random_state"):
            if k in cfg:
                kw[k] = cfg[k]
        return getattr(regressor, kind)(**kw)
    if kind in ("SklearnRegressor", "SklearnNormalRegressor"):
        from skactiveml import regressor
        kw = {k: cfg[k] for k in ("missing_label", "random_state")
              if k in cfg}
        return getattr(regressor, kind)(
            estimator=build_sklearn(p["estimator"], SK_REGRESSORS), **kw)
    raise HarnessError(f"unknown component kind {kind!r}")


def label(cfg):
    """Component name for signatures and class distributions."""
    kind = cfg["kind"]
    p = cfg.get("params") or {}
    if kind in ("SklearnClassifier", "SklearnRegressor",
                "SklearnNormalRegressor"):
        return f"{kind}[{p['estimator']['name']}]"
    if kind == "SlidingWindowClassifier":
        return f"{kind}[{label(p['estimator'])}]"
    if kind == "AnnotatorEnsembleClassifier":
        return f"{kind}[{p.get('voting', 'hard')}]"
    return kind


def accepts_sample_weight(cfg):
    """Can `fit(..., sample_weight=...)` be called at all?  (The wrappers
    copy the wrapped estimator's signature.)"""
    kind = cfg["kind"]
    p = cfg.get("params") or {}
    if kind in ("SklearnClassifier", "SklearnRegressor",
                "SklearnNormalRegressor"):
        return bool(sk_info(p["estimator"]["name"])["sample_weight"])
    if kind == "SlidingWindowClassifier":
        return accepts_sample_weight(p["estimator"])
    if kind == "AnnotatorEnsembleClassifier":
        return all(accepts_sample_weight(c) for c in p["estimators"])
    return True


def is_multi_annotator(cfg):
    return cfg["kind"] in MULTI_ANNOTATOR_KINDS


def has_predict_freq(cfg):
    kind = cfg["kind"]
    if kind in CLASS_FREQUENCY_KINDS:
        return True
    if kind == "SlidingWindowClassifier":
        return has_predict_freq(cfg["params"]["estimator"])
    return False


def check_complete():
    """Harness error if the package exports a classifier/regressor that the
    registry does not know."""
    import skactiveml.classifier as c
    import skactiveml.classifier.multiannotator as m
    import skactiveml.regressor as r
    exported = ([n for n in c.__all__ if n != "multiannotator"]
                + list(m.__all__))
    missing = sorted(set(exported) - set(CLASSIFIER_KINDS))
    missing += sorted(set(r.__all__) - set(REGRESSOR_KINDS))
    if missing:
        raise HarnessError(
            f"components exported by the package but missing from "
            f"vp/clfreg.py: {missing}")
    return True


# ----------------------------------------------------------------- labels --
def is_nan(v):
    return isinstance(v, float) and math.isnan(v)


def make_y(y_idx, labels, missing_label):
    """Index coded labels (-1 = missing; 1-D or 2-D nested lists) -> the
    array a user would pass, in the label type given by `labels`."""
    idx = np.asarray(y_idx, dtype=int)
    if idx.size == 0:
        return np.array([])
    is_str = isinstance(labels[0], str)
    if is_str:
        if missing_label is None:
            out = np.empty(idx.shape, dtype=object)
        else:
            width = max(len(s) for s in list(labels) + [missing_label]) or 1
            out = np.empty(idx.shape, dtype=f"<U{width}")
    elif is_nan(missing_label):
        out = np.empty(idx.shape, dtype=float)
    elif missing_label is None:
        out = np.empty(idx.shape, dtype=object)
    else:
        out = np.empty(idx.shape, dtype=int)
    for pos in np.ndindex(*idx.shape):
        k = int(idx[pos])
        out[pos] = missing_label if k < 0 else labels[k]
    return out


def sorted_labels(labels):
    return sorted(labels)


def is_arange(labels):
    """True iff the sorted class labels are exactly 0..K-1 (the encoded
    representation coincides with the user's labels)."""
    s = sorted(labels)
    return all((not isinstance(v, str)) and v == i for i, v in enumerate(s))


def sorted_cost_matrix(cost_matrix, labels):
    """User cost matrix (rows/cols in the order of `labels` as declared)
    permuted into sorted-class order."""
    C = np.array(cost_matrix, dtype=float)
    order = sorted(range(len(labels)), key=lambda i: labels[i])
    return C[np.ix_(order, order)]
