#!/bin/bash
# tools/try_seed.sh <patch.diff> <ID> [<ID> ...]
# Applies a seeded change to /repo, runs the quick checks of the given
# properties (no evidence written), reverts the change. Prints one line per
# check: <ID> DETECTED|missed|HARNESS-ERROR <first violation signature>
set -u
PATCH="$(realpath "$1")"; shift
cd /repo || exit 2
if ! git diff --quiet -- skactiveml; then echo "repo working tree not clean"; exit 2; fi
git apply --check "$PATCH" || { echo "patch does not apply"; exit 2; }
git apply "$PATCH"
trap 'git -C /repo checkout -- skactiveml' EXIT
cd /verif
for ID in "$@"; do
  OUT=$(./check "$ID" --tier quick --no-evidence ${SEED_ARGS:-} 2>&1)
  RC=$?
  SIG=$(echo "$OUT" | grep -m1 "  violation:" | cut -c1-220)
  case $RC in
    0) echo "$ID missed";;
    1) echo "$ID DETECTED $SIG";;
    *) echo "$ID HARNESS-ERROR $(echo "$OUT" | tail -3 | tr '\n' ' ' | cut -c1-300)";;
  esac
done
