#!/bin/bash
# tools/try_seed.sh <patch.diff> <ID> [<ID> ...]
# Runs the quick checks of the given properties against a scratch copy of
# /repo's working tree with the seeded change applied (VERIF_REPO points the
# checks at the copy; /repo itself is not touched, so background runs are not
# disturbed). Equivalent to: git -C /repo apply <patch>; ./check <ID>;
# git -C /repo checkout -- skactiveml.  The copy is removed afterwards.
# Prints one line per check: <ID> DETECTED|missed|HARNESS-ERROR <signature>
set -u
PATCH="$(realpath "$1")"; shift
SCR="$(mktemp -d /tmp/seedrepo.XXXXXX)"
trap 'rm -rf "$SCR"' EXIT
rsync -a --exclude tests --exclude '*.pdf' /repo/skactiveml "$SCR/" || exit 2
( cd "$SCR" && git init -q . >/dev/null 2>&1 && git apply "$PATCH" ) || { echo "patch does not apply"; exit 2; }
cd /verif
for ID in "$@"; do
  OUT=$(VERIF_REPO="$SCR" ./check "$ID" --tier quick --no-evidence ${SEED_ARGS:-} 2>&1)
  RC=$?
  SIG=$(echo "$OUT" | grep -m1 "  violation:" | cut -c1-220)
  case $RC in
    0) echo "$ID missed";;
    1) echo "$ID DETECTED $SIG";;
    *) echo "$ID HARNESS-ERROR $(echo "$OUT" | tail -3 | tr '\n' ' ' | cut -c1-300)";;
  esac
done
