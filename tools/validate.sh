#!/bin/bash
# validate MANIFEST.json and all evidence files against the schemas
python3-vt - <<'PY'
import json, jsonschema, glob
m=json.load(open('/verif/MANIFEST.json')); jsonschema.validate(m, json.load(open('/root/.vp/MANIFEST.schema.json')))
es=json.load(open('/root/.vp/EVIDENCE.schema.json'))
for f in sorted(glob.glob('/verif/evidence/*.json')):
    e=json.load(open(f)); jsonschema.validate(e, es)
    print(f.split('/')[-1], e['tier'], e['coverage']['evaluations'], e['coverage']['distinct_nontrivial'], e['wall_s'], 'viol', e.get('violations'))
print('manifest ok: claimed', [c['property_id'] for c in m['checks']])
PY
