#!/venv/bin/python
"""Regenerate MANIFEST.json from the property modules that exist.
Properties without a module are listed under not_applicable with the reason
given in PENDING (kept current by hand)."""
import importlib
import json
import os
import sys

HERE = os.path.dirname(os.path.dirname(os.path.abspath(__file__)))
sys.path.insert(0, HERE)

PENDING = {}  # property id -> reason, for properties not (yet) claimed

LEVEL_TEXT = {
    "default": ("Generated-input search (Hypothesis) against an explicit "
                "oracle; a pass means the property held on every generated "
                "case, the evidence file states how many cases were generated "
                "and how many were non-trivial. No claim of absence."),
}


def main():
    props = [json.loads(l) for l in open(os.path.join(HERE,
                                                      "properties.jsonl"))]
    checks, na = [], []
    for p in props:
        pid = p["id"]
        path = os.path.join(HERE, "vp", "props", f"{pid.lower()}.py")
        ready = open(os.path.join(HERE, "tools", "ready.txt")).read().split()
        if not os.path.exists(path) or pid not in ready:
            na.append({"property_id": pid,
                       "reason": PENDING.get(
                           pid, "check not built yet in this revision "
                                "(planned in DESIGN.md section 4)")})
            continue
        os.environ.setdefault("VERIF_REPO", "/repo")
        sys.path.insert(0, os.environ["VERIF_REPO"])
        mod = importlib.import_module(f"vp.props.{pid.lower()}")
        checks.append({
            "property_id": pid,
            "quick_cmd": f"./check {pid} --tier quick",
            "thorough_cmd": f"./check {pid} --tier thorough",
            "evidence_file": f"evidence/{pid}.json",
            "replay_cmd_template": f"./check {pid} --replay {{path}}",
            "engine": "hypothesis",
            "technique": mod.TECHNIQUE,
            "level_claimed": {
                "category": "exploration",
                "text": getattr(mod, "LEVEL_TEXT", LEVEL_TEXT["default"]),
                "design_ref": f"DESIGN.md section 4 ({pid})",
            },
            "level_note": "; ".join(getattr(mod, "ASSUMPTIONS", []))
            or "trusted base: numpy, scikit-learn, Hypothesis, the oracle "
               "code in vp/props",
        })
    manifest = {
        "version": 1,
        "setup_cmd": "./setup.sh",
        "hooks": {
            "guard": "SKACTIVEML_VERIF",
            "enable": "export SKACTIVEML_VERIF=1 (done by ./check); no "
                      "source hook exists, the package is imported from "
                      "/repo's working tree in a fresh interpreter",
            "baseline_off_cmd": "cd /repo && env -u SKACTIVEML_VERIF "
                                "/venv/bin/python -m pytest -ra -q -p "
                                "no:cacheprovider --timeout=900 "
                                "--continue-on-collection-errors",
            "source_commits": [],
            "add_only": True,
        },
        "engines": [
            {"name": "hypothesis", "path": "vp/runner.py",
             "serves_properties": [c["property_id"] for c in checks],
             "kind_free_text": "property-based testing: sharded Hypothesis "
                               "campaigns, case dict = replay file, "
                               "signature-based known-finding matching"},
            {"name": "atheris", "path": "vp/fuzz_atheris.py",
             "serves_properties": ["C16", "C18"],
             "kind_free_text": "coverage-guided fuzzing (libFuzzer) of the "
                               "same Hypothesis strategy and oracle through "
                               "fuzz_one_input; thorough tier only, optional "
                               "(installed offline by setup.sh into .deps)"},
        ],
        "checks": checks,
        "not_applicable": na,
        "notes": "Every check is './check <ID> --tier quick|thorough'; it "
                 "imports skactiveml from /repo's working tree (VERIF_REPO "
                 "overrides), honours VERIF_SEED, rewrites "
                 "evidence/<ID>.json, prints KNOWN-FINDING lines for entries "
                 "of known_findings.json and VIOLATION lines with a replay "
                 "file otherwise. Exit 2 = harness error.",
    }
    with open(os.path.join(HERE, "MANIFEST.json"), "w") as f:
        json.dump(manifest, f, indent=1)
        f.write("\n")
    print(f"claimed {len(checks)}, not_applicable {len(na)}")


if __name__ == "__main__":
    main()
