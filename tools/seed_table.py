#!/usr/bin/env python3
"""Print the markdown table of seeded changes from seeded/*/meta.json."""
import glob, json, os, re
rows = []
for d in sorted(glob.glob('/verif/seeded/*/')):
    m = json.load(open(d + 'meta.json'))
    name = os.path.basename(d.rstrip('/'))
    patch = open(d + 'patch.diff').read()
    files = sorted(set(re.findall(r'^\+\+\+ b/(\S+)', patch, re.M)))
    needs = m.get('needs_short') or ''
    res = []
    for l in m.get('results', []):
        parts = l.split()
        res.append(f"{parts[0]}:{'yes' if 'DETECTED' in l else 'no'}")
    fr = m.get('first_result') or ''
    first = 'missed' if 'missed' in fr else 'detected'
    rows.append((name, ', '.join(f.replace('skactiveml/', '') for f in files),
                 needs, ' '.join(res), first,
                 'yes' if m.get('confirmed') else 'NO'))
print('| seed | files | needs to manifest | quick checks now (detected?) | target check at first run | demo confirmed |')
print('|---|---|---|---|---|---|')
for r in rows:
    print('| ' + ' | '.join(r) + ' |')
