#!/usr/bin/env python3
"""Re-insert sections 8-11 (tools/design_sections_8_11.md, with the seed table
regenerated from seeded/*/meta.json) into DESIGN.md before Appendix A."""
import subprocess
new = open('/verif/tools/design_sections_8_11.md').read()
table = subprocess.run(['/verif/tools/seed_table.py'], capture_output=True,
                       text=True).stdout
new = new.replace('SEED_TABLE_PLACEHOLDER', table)
p = '/verif/DESIGN.md'
s = open(p).read()
marker = "## Appendix A"
i = s.index(marker)
if "## 8. What was built" in s:
    j = s.index("## 8. What was built")
    s = s[:j] + s[i:]
    i = s.index(marker)
s = (s[:i] + new + "\n" + "-" * 75 + "\n\n" + s[i:])
open(p, 'w').write(s)
print("DESIGN.md updated")
