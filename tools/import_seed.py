#!/venv/bin/python
"""tools/import_seed.py <PID> <k> [check ids...]
Confirms a seeded change written by an independent sub-agent in
/tmp/wt_<PID>/_seed (demo fails with the change, passes without it, in that
scratch worktree), stores it as /verif/seeded/<PID>-<k>/ and runs the quick
checks of the given properties (default: <PID>) against /repo with the change
applied (reverted straight afterwards)."""
import json
import os
import shutil
import subprocess
import sys

pid, k = sys.argv[1], sys.argv[2]
checks = sys.argv[3:] or [pid]
rnd = int(os.environ.get("SEED_ROUND", "1"))
wt = f"/tmp/wt_{pid}" if rnd == 1 else f"/tmp/wt{rnd}_{pid}"
src = f"{wt}/_seed"
dst = f"/verif/seeded/{pid}-{int(k) + 2 * (rnd - 1)}"
# (round 3 seeds are numbered 5 and 6)
os.makedirs(dst, exist_ok=True)
patch = f"{src}/change{k}.diff"
demo = f"{src}/demo{k}.py"
notes = f"{src}/notes{k}.md"


def sh(cmd, **kw):
    return subprocess.run(cmd, shell=True, capture_output=True, text=True,
                          **kw)


def run_demo():
    env = dict(os.environ, PYTHONPATH=wt, PYTHONHASHSEED="0",
               OMP_NUM_THREADS="1")
    r = subprocess.run(["/venv/bin/python", demo], cwd=wt, env=env,
                       capture_output=True, text=True, timeout=1800)
    return r.returncode, (r.stdout + r.stderr)[-600:]


meta = {"property": pid, "seed": int(k) + 2 * (rnd - 1), "round": rnd}
assert sh(f"git -C {wt} diff --quiet -- skactiveml").returncode == 0, \
    "worktree not clean"
rc0, out0 = run_demo()
assert sh(f"git -C {wt} apply {patch}").returncode == 0, "patch failed"
try:
    rc1, out1 = run_demo()
finally:
    sh(f"git -C {wt} checkout -- skactiveml")
meta["demo_without_change"] = {"exit": rc0, "tail": out0[-200:]}
meta["demo_with_change"] = {"exit": rc1, "tail": out1[-300:]}
meta["confirmed"] = (rc0 == 0 and rc1 != 0)
shutil.copy(patch, f"{dst}/patch.diff")
shutil.copy(demo, f"{dst}/demo.py")
if os.path.exists(notes):
    shutil.copy(notes, f"{dst}/notes.md")
    meta["needs"] = open(notes).read()[:1500]
# now against /repo with my checks
res = sh(f"SEED_ARGS='{os.environ.get('SEED_ARGS', '')}' "
         f"/verif/tools/try_seed.sh {dst}/patch.diff {' '.join(checks)}")
meta["ran"] = (f"tools/try_seed.sh {dst[7:]}/patch.diff "
               + " ".join(checks)
               + "  (scratch copy of /repo's skactiveml with the patch "
                 "applied, VERIF_REPO pointed at it, quick tier of each "
                 "listed check, copy removed; equivalent to git -C /repo "
                 "apply / ./check / git -C /repo checkout -- .)")
meta["results"] = res.stdout.strip().splitlines()
meta["detected_by"] = [l.split()[0] for l in meta["results"]
                       if " DETECTED" in l]
json.dump(meta, open(f"{dst}/meta.json", "w"), indent=1)
print(json.dumps({k2: meta[k2] for k2 in ("confirmed", "results")},
                 indent=1))
